#!/usr/bin/env python3
"""Engine B: MIR -> SMT-LIB2 for attack::rook / attack::bishop (C15).

Every run: dump the optimised MIR of owlchess from /repo's working tree (nightly), parse the
straight-line body of `rook` / `bishop` and the byte images of the statics it refers to, specialise
per square, and ask z3 whether the look-up can differ from the ray-walk definition for ANY 64-bit
occupancy.  Unknown statement forms abort as inconclusive; never a pass.
"""
import json, os, re, subprocess, sys, time, random

# the repository under test sits next to the /verif tree (/repo for /verif; a scratch copy for isolated mutation runs)
REPO = os.path.join(os.path.dirname(os.path.dirname(os.path.dirname(os.path.abspath(__file__)))), 'repo')
SIZES = {'attack::MagicEntry': 24, 'u64': 8, 'owlchess_base::bitboard::Bitboard': 8, 'Bitboard': 8}


class Inconclusive(Exception):
    pass


def dump_mir(target_dir):
    lib = os.path.join(REPO, 'chess', 'src', 'lib.rs')
    os.utime(lib, None)   # force rustc to re-emit (an unchanged crate prints nothing)
    env = dict(os.environ)
    env['CARGO_TARGET_DIR'] = target_dir
    env['CARGO_NET_OFFLINE'] = 'true'
    env.pop('RUSTFLAGS', None)
    r = subprocess.run(['cargo', '+nightly', 'rustc', '--offline', '-p', 'owlchess', '--lib', '--', '-Zunpretty=mir', '-Zmir-opt-level=2',
                        '-Zinline-mir=yes', '-C', 'debug-assertions=off', '-C', 'overflow-checks=on'], cwd=REPO, env=env,
                       capture_output=True, text=True)
    if r.returncode != 0 or len(r.stdout) < 1000:
        raise Inconclusive('MIR dump failed: ' + r.stderr[-600:])
    return r.stdout


_FN_CACHE = {}


def fn_body(mir, name):
    key = (id(mir), name)
    if key not in _FN_CACHE:
        _FN_CACHE[key] = _fn_body(mir, name)
    return _FN_CACHE[key]


def _fn_body(mir, name):
    m = re.search(r'^fn %s\(_1: Coord, _2: Bitboard\) -> Bitboard \{\n(.*?)^\}\n' % name, mir, re.S | re.M)
    if not m:
        raise Inconclusive('function %s not found in the MIR dump (signature changed?)' % name)
    return m.group(1), m.end()


_ALLOC_CACHE = {}


def parse_alloc(mir, alloc, start):
    key = (id(mir), alloc)
    if key in _ALLOC_CACHE:
        return _ALLOC_CACHE[key]
    r = _parse_alloc(mir, alloc, start)
    _ALLOC_CACHE[key] = r
    return r


def _parse_alloc(mir, alloc, start):
    """byte image of `allocN` (first occurrence after `start`): bytes[] with None for relocation bytes, relocs{offset: (alloc, off)}"""
    m = re.compile(r'^alloc%s \(static: (\w+), size: (\d+), align: \d+\) \{\n(.*?)^\}\n' % alloc, re.S | re.M).search(mir, start)
    if not m:
        raise Inconclusive('alloc%s not found' % alloc)
    name, size, body = m.group(1), int(m.group(2)), m.group(3)
    data = [None] * size
    relocs = {}
    for line in body.split('\n'):
        if not line.strip():
            continue
        mm = re.match(r'\s*0x([0-9a-f]+) │ (.*) │', line)
        if not mm:
            raise Inconclusive('alloc%s: unrecognised dump line %r' % (alloc, line[:60]))
        off = int(mm.group(1), 16)
        cols = mm.group(2)
        pos = 0
        for tok in re.findall(r'╾[^╼]*╼|[0-9a-f]{2}|__', cols):
            if tok.startswith('╾'):
                r = re.match(r'╾─*(?:alloc|a)(\d+)(?:\+0x([0-9a-f]+))?<imm>─*╼', tok)
                if not r:
                    raise Inconclusive('alloc%s: unrecognised relocation %r' % (alloc, tok))
                relocs[off + pos] = (r.group(1), int(r.group(2) or '0', 16))
                pos += 8
            elif tok == '__':
                pos += 1
            else:
                data[off + pos] = int(tok, 16)
                pos += 1
        if pos != 16 and off + pos != size:
            raise Inconclusive('alloc%s: line at %#x decodes to %d bytes' % (alloc, off, pos))
    return {'name': name, 'size': size, 'data': data, 'relocs': relocs}


def load_u64(al, off):
    b = al['data'][off:off + 8]
    if len(b) != 8 or any(x is None for x in b):
        raise Inconclusive('%s: u64 load at %#x hits relocation/uninitialised/out-of-range bytes' % (al['name'], off))
    return int.from_bytes(bytes(b), 'little')


_CONST_CACHE = {}


def const_array(mir, path):
    key = (id(mir), path)
    if key not in _CONST_CACHE:
        _CONST_CACHE[key] = _const_array(mir, path)
    return _CONST_CACHE[key]


def _const_array(mir, path):
    """values of `const <path>: [u64; N] = { _0 = [const A_u64, ...]; }` reached through a promoted"""
    m = re.search(r'^const %s: &\[u64; (\d+)\] = \{\n(.*?)^\}\n' % re.escape(path), mir, re.S | re.M)
    if not m:
        raise Inconclusive('promoted %s not found' % path)
    mm = re.search(r'_1 = const ([\w:]+);', m.group(2))
    if not mm:
        raise Inconclusive('promoted %s: unexpected body' % path)
    cname = mm.group(1).split('::')[-1]
    m2 = re.search(r'^const %s: \[u64; \d+\] = \{\n(.*?)^\}\n' % cname, mir, re.S | re.M)
    if not m2:
        raise Inconclusive('const %s not found' % cname)
    vals = [int(x) for x in re.findall(r'const (\d+)_u64', m2.group(1))]
    if len(vals) != int(m.group(1)):
        raise Inconclusive('const %s: %d values, expected %s' % (cname, len(vals), m.group(1)))
    return cname, vals


class Ptr:
    def __init__(self, kind, ref, off, elem=None):
        self.kind, self.ref, self.off, self.elem = kind, ref, off, elem   # off: int or ('sym', base:int, idx_term, scale)


def bv(n):
    return '#x%016x' % (n & (2 ** 64 - 1))


def specialise(mir, fname, sq):
    """symbolic evaluation of the body for a concrete square; returns (impl_term, obligations, info)"""
    body, end = fn_body(mir, fname)
    types = dict(re.findall(r'let (?:mut )?(_\d+): ([^;]+);', body))
    env = {'_1.0': sq, '_2.0': 'occ'}
    allocs = {}
    info = {'statements': 0, 'table_reads': []}
    obligations = []

    def alloc(n):
        if n not in allocs:
            allocs[n] = parse_alloc(mir, n, end - len(body) - 200)
        return allocs[n]

    def val(tok):
        tok = tok.strip()
        tok = re.sub(r'^(copy|move) ', '', tok)
        m = re.match(r'const (\d+)_(usize|u64|u8)$', tok)
        if m:
            return int(m.group(1))
        if tok in env:
            return env[tok]
        raise Inconclusive('%s: unknown operand %r' % (fname, tok))

    def elem_size(ptr_local):
        t = types.get(ptr_local, '')
        m = re.match(r'&\[(.+)\]$', t.strip())
        if not m or m.group(1) not in SIZES:
            raise Inconclusive('%s: element type of %s (%s) unknown' % (fname, ptr_local, t))
        return SIZES[m.group(1)]

    def load(ptr, fieldoff, want_ptr=False):
        if ptr.kind == 'array':
            if isinstance(ptr.off, int) and 0 <= ptr.off < len(ptr.ref) and fieldoff == 0:
                return ptr.ref[ptr.off]
            raise Inconclusive('constant array index out of range')
        al = alloc(ptr.ref)
        if isinstance(ptr.off, int):
            o = ptr.off + fieldoff
            if want_ptr:
                if o not in al['relocs']:
                    raise Inconclusive('%s+%#x: expected a pointer (struct layout changed?)' % (al['name'], o))
                a, off = al['relocs'][o]
                return Ptr('alloc', a, off)
            if o + 8 > al['size']:
                obligations.append(('concrete-oob', '%s+%#x' % (al['name'], o)))
                raise Inconclusive('out-of-bounds constant load')
            return load_u64(al, o)
        # symbolic index into the table: emit the slice the index can reach
        _, base, idx_term, scale, idx_bits = ptr.off
        n = 1 << idx_bits
        if scale != 8 or fieldoff != 0 or base % 8:
            raise Inconclusive('unexpected table access shape')
        in_bounds = base + n * 8 <= al['size']
        info['table_reads'].append({'table': al['name'], 'base_entry': base // 8, 'entries_reachable': n, 'table_entries': al['size'] // 8,
                                    'in_bounds_for_every_index': in_bounds})
        if not in_bounds:
            obligations.append(('oob', 'index into %s can reach entry %d of %d' % (al['name'], base // 8 + n - 1, al['size'] // 8)))
            n = (al['size'] - base) // 8
        ents = [load_u64(al, base + 8 * i) for i in range(max(n, 0))]
        return ('select', ents, idx_term, idx_bits)

    lines = [l.strip() for l in body.split('\n')]
    for l in lines:
        if not l or l.startswith(('debug ', 'let ', 'scope ', '}', '// ', 'bb')) or l == 'return;':
            continue
        info['statements'] += 1
        m = re.match(r'(_\d+) = const \{alloc(\d+): &\[[^\]]+\]\} as &\[[^\]]+\] \(PointerCoercion\(Unsize, Implicit\)\);$', l)
        if m:
            env[m.group(1)] = Ptr('alloc', m.group(2), 0)
            continue
        m = re.match(r'(_\d+) = const ([\w:]+::promoted\[\d+\]) as &\[u64\] \(PointerCoercion\(Unsize, Implicit\)\);$', l)
        if m:
            path = m.group(2).split('::', 1)[1] if m.group(2).startswith('attack::') else m.group(2)
            cname, vals = const_array(mir, path)
            env[m.group(1)] = Ptr('array', vals, 0)
            info.setdefault('consts', []).append(cname)
            continue
        m = re.match(r'(_\d+) = copy \((_\d+)\.0: (u8|u64)\);$', l)
        if m:
            env[m.group(1)] = env[m.group(2) + '.0']
            continue
        m = re.match(r'(_\d+) = (copy|move) (_\d+) as usize \(IntToInt\);$', l)
        if m:
            env[m.group(1)] = env[m.group(3)]
            continue
        m = re.match(r'(_\d+) = Lt\((.+), (.+)\);$', l)
        if m:
            a, b = val(m.group(2)), val(m.group(3))
            if not (isinstance(a, int) and isinstance(b, int)):
                raise Inconclusive('symbolic comparison not supported: ' + l)
            env[m.group(1)] = a < b
            continue
        m = re.match(r'assume\((?:copy|move) (_\d+)\);$', l)
        if m:
            if env[m.group(1)] is not True:
                raise Inconclusive('assume() does not hold for square %d' % sq)
            continue
        m = re.match(r'assert\((?:copy|move) (_\d+), .*\) -> \[success: bb\d+, unwind continue\];$', l)
        if m:
            if env[m.group(1)] is not True:
                obligations.append(('panic', 'assert fails for square %d: %s' % (sq, l[:80])))
            continue
        m = re.match(r'(_\d+) = &raw const \(\*(_\d+)\)\[(_\d+)\];$', l)
        if m:
            p, i = env[m.group(2)], env[m.group(3)]
            if p.kind == 'array':
                env[m.group(1)] = Ptr('array', p.ref, i)
            else:
                env[m.group(1)] = Ptr('alloc', p.ref, p.off + i * elem_size(m.group(2)))
            continue
        m = re.match(r'(_\d+) = copy \(\*(_\d+)\);$', l)
        if m:
            env[m.group(1)] = load(env[m.group(2)], 0)
            continue
        m = re.match(r'(_\d+) = copy \(\(\(\*(_\d+)\)\.(\d): [\w:]+\)\.0: u64\);$', l)
        if m:
            env[m.group(1)] = load(env[m.group(2)], 8 * int(m.group(3)))
            continue
        m = re.match(r'(_\d+) = copy \(\(\*(_\d+)\)\.(\d): \*const [\w:]+\);$', l)
        if m:
            env[m.group(1)] = load(env[m.group(2)], 8 * int(m.group(3)), want_ptr=True)
            continue
        m = re.match(r'(_\d+) = copy \(\(\*(_\d+)\)\.0: u64\);$', l)
        if m:
            env[m.group(1)] = load(env[m.group(2)], 0)
            continue
        m = re.match(r'(_\d+) = (BitAnd|Mul)\((.+), (.+)\);$', l)
        if m:
            a, b = val(m.group(3)), val(m.group(4))
            op = {'BitAnd': 'bvand', 'Mul': 'bvmul'}[m.group(2)]
            env[m.group(1)] = ('op', op, a, b)
            continue
        m = re.match(r'(_\d+) = Shr\((.+), (.+)\);$', l)
        if m:
            a, b = val(m.group(2)), val(m.group(3))
            if not isinstance(b, int) or not 0 <= b < 64:
                raise Inconclusive('shift amount not a constant below 64')
            env[m.group(1)] = ('shr', a, b)
            continue
        m = re.match(r'(_\d+) = Offset\((?:copy|move) (_\d+), (?:copy|move) (_\d+)\);$', l)
        if m:
            p, i = env[m.group(2)], env[m.group(3)]
            if not (isinstance(i, tuple) and i[0] == 'shr'):
                raise Inconclusive('table index is not a right shift: ' + l)
            env[m.group(1)] = Ptr('alloc', p.ref, ('sym', p.off, i, 8, 64 - i[2]))
            continue
        m = re.match(r'_0 = Bitboard\((?:copy|move) (_\d+)\);$', l)
        if m:
            env['_0'] = env[m.group(1)]
            continue
        raise Inconclusive('%s: unsupported MIR statement %r' % (fname, l[:100]))
    if '_0' not in env:
        raise Inconclusive('%s: no return value' % fname)
    return env['_0'], obligations, info


def term(t, defs):
    """SMT-LIB text of a value"""
    if isinstance(t, int):
        return bv(t)
    if t == 'occ':
        return 'occ'
    if t[0] == 'op':
        return '(%s %s %s)' % (t[1], term(t[2], defs), term(t[3], defs))
    if t[0] == 'shr':
        return '(bvlshr %s %s)' % (term(t[1], defs), bv(t[2]))
    if t[0] == 'select':
        # table read as a balanced if-then-else tree over the index bits (decided in ~0.1 s per square by z3;
        # nested array stores took minutes, an uninterpreted function with 4096 equalities stalls cvc5)
        _, ents, idx, bits = t
        name = 'ix%d' % len(defs)
        defs.append('(define-fun %s () (_ BitVec %d) ((_ extract %d 0) %s))' % (name, bits, bits - 1, term(idx, defs)))
        full = list(ents) + [0] * ((1 << bits) - len(ents))

        def tree(lo, hi, bit):
            if hi - lo == 1:
                return bv(full[lo])
            mid = (lo + hi) // 2
            return '(ite (= ((_ extract %d %d) %s) #b1) %s %s)' % (bit, bit, name, tree(mid, hi, bit - 1), tree(lo, mid, bit - 1))
        return tree(0, 1 << bits, bits - 1)
    raise Inconclusive('cannot print term')


ROOK_DIRS = [(0, 1), (0, -1), (-1, 0), (1, 0)]
BISHOP_DIRS = [(-1, 1), (-1, -1), (1, -1), (1, 1)]


def ray_ref(sq, dirs):
    """ray-walk definition as an SMT term over `occ` (squares reached up to and including the first occupied one)"""
    f0, r0 = sq & 7, sq >> 3
    parts = []
    for df, dr in dirs:
        f, r = f0 + df, r0 + dr
        blockers = []
        while 0 <= f < 8 and 0 <= r < 8:
            b = r * 8 + f
            cond = 'true' if not blockers else '(= (bvand occ %s) %s)' % (bv(sum(1 << x for x in blockers)), bv(0))
            parts.append('(ite %s %s %s)' % (cond, bv(1 << b), bv(0)))
            blockers.append(b)
            f, r = f + df, r + dr
    t = bv(0)
    for p in parts:
        t = '(bvor %s %s)' % (t, p)
    return t


def ray_eval(sq, occ, dirs):
    f0, r0 = sq & 7, sq >> 3
    res = 0
    for df, dr in dirs:
        f, r = f0 + df, r0 + dr
        while 0 <= f < 8 and 0 <= r < 8:
            b = r * 8 + f
            res |= 1 << b
            if occ >> b & 1:
                break
            f, r = f + df, r + dr
    return res


def eval_term(t, occ):
    """concrete evaluation of an emitted term (translator validation against the native function)"""
    M = 2 ** 64 - 1
    if isinstance(t, int):
        return t
    if t == 'occ':
        return occ
    if t[0] == 'op':
        a, b = eval_term(t[2], occ), eval_term(t[3], occ)
        return (a & b) if t[1] == 'bvand' else (a * b) & M
    if t[0] == 'shr':
        return eval_term(t[1], occ) >> t[2]
    if t[0] == 'select':
        i = eval_term(t[2], occ) & ((1 << t[3]) - 1)
        return t[1][i] if i < len(t[1]) else 0
    raise Inconclusive('cannot evaluate term')


def solver_session(solver_cmd, script, timeout):
    t0 = time.time()
    r = subprocess.run(solver_cmd, input=script, capture_output=True, text=True, timeout=timeout)
    return r.stdout, r.stderr, time.time() - t0


def run(out_dir, tier='quick', seed=0, solver='z3', pieces=('rook', 'bishop'), native_eval=None, log=print, jobs=12, per_query_timeout=300, mir=None, squares=None):
    os.makedirs(out_dir, exist_ok=True)
    t0 = time.time()
    if mir is None:
        mir = dump_mir(os.path.join(out_dir, 'target'))
    res = {'queries': 0, 'unsat': 0, 'sat': [], 'unknown': [], 'solver_s': 0.0, 'obligations_failed': [], 'functions': [], 'samples': [],
           'mir_dump_s': round(time.time() - t0, 1), 'validated_pairs': 0, 'validation_mismatch': []}
    rnd = random.Random(seed)
    for piece in pieces:
        dirs = ROOK_DIRS if piece == 'rook' else BISHOP_DIRS
        body, _ = fn_body(mir, piece)
        res['functions'].append({'fn': 'owlchess::attack::' + piece, 'mir_statements': len([l for l in body.split('\n') if ' = ' in l and 'let ' not in l and 'debug' not in l])})
        specs, scripts = [], []
        for sq in (squares if squares is not None else range(64)):
            impl, obl, info = specialise(mir, piece, sq)
            for o in obl:
                res['obligations_failed'].append({'piece': piece, 'square': sq, 'what': o})
            defs = []
            it = term(impl, defs)
            script = ['(set-logic ALL)', '(set-option :produce-models true)', '(declare-const occ (_ BitVec 64))'] + defs
            script.append('(assert (not (= %s %s)))' % (it, ray_ref(sq, dirs)))
            script += ['(check-sat)']
            scripts.append('\n'.join(script) + '\n')
            specs.append((sq, impl, info))
            # translator validation: the emitted term evaluated on concrete occupancies = the native function
            if native_eval is not None:
                for _ in range(8 if tier == 'quick' else 32):
                    occ = rnd.getrandbits(64) & rnd.getrandbits(64) if rnd.random() < 0.5 else rnd.getrandbits(64)
                    res['validated_pairs'] += 1
                    res.setdefault('_pending', []).append((piece, sq, occ, eval_term(impl, occ)))
        cmd = {'z3': ['z3', '-in'], 'z3-new': ['z3-new', '-in']}.get(solver) or ['cvc5', '--lang', 'smt2', '--produce-models']
        from concurrent.futures import ThreadPoolExecutor
        t1 = time.time()

        def one(sc):
            try:
                out, err, dt = solver_session(cmd, sc, per_query_timeout)
                if out.strip().split('\n')[0:1] == ['sat']:
                    # only a satisfiable query is asked for its model (get-value after unsat is an error in cvc5)
                    out2, err2, dt2 = solver_session(cmd, sc + '(get-value (occ))\n', per_query_timeout)
                    return out2, err2, dt + dt2
                return out, err, dt
            except subprocess.TimeoutExpired:
                return 'unknown\n', 'timeout', per_query_timeout
        with ThreadPoolExecutor(max_workers=jobs) as ex:
            outs = list(ex.map(one, scripts))
        dt = time.time() - t1
        res['solver_s'] += sum(o[2] for o in outs)
        verdicts = []
        for (sq, impl, info), (out, err, _) in zip(specs, outs):
            errs = [l for l in out.split('\n') if l.startswith('(error') and 'model is not available' not in l]
            first = out.strip().split('\n')[0] if out.strip() else ''
            if (errs or (err.strip() and err != 'timeout')) and first != 'unsat':
                raise Inconclusive('%s reported errors on %s square %d: %s %s' % (solver, piece, sq, errs[:2], err[:200]))
            v = first if first in ('sat', 'unsat') else 'unknown'
            if errs and v == 'unsat' and any('model is not available' not in e for e in errs):
                v = 'unknown'
            verdicts.append(v)
            res['queries'] += 1
            if v == 'unsat':
                res['unsat'] += 1
            elif v == 'sat':
                mm = re.search(r'\(\(occ #x([0-9a-f]{16})\)\)', out)
                res['sat'].append({'piece': piece, 'square': sq, 'occ': int(mm.group(1), 16) if mm else None})
            else:
                res['unknown'].append({'piece': piece, 'square': sq})
            if sq in (0, 27, 63):
                res['samples'].append({'piece': piece, 'square': sq, 'verdict': v, 'table_read': info['table_reads'][:1], 'statements': info['statements']})
        log('  engine B: %s: %d/%d unsat in %.1fs (%s)' % (piece, sum(1 for v in verdicts if v == 'unsat'), len(verdicts), dt, solver))
    # translator validation against the native build
    if native_eval is not None and res.get('_pending'):
        pend = res.pop('_pending')
        got = native_eval([(p, s, o) for p, s, o, _ in pend])
        for (p, s, o, want), g in zip(pend, got):
            if g != want:
                res['validation_mismatch'].append({'piece': p, 'square': s, 'occ': o, 'encoded': want, 'native': g})
    res.pop('_pending', None)
    res['wall_s'] = round(time.time() - t0, 1)
    return res


if __name__ == '__main__':
    r = run(sys.argv[1] if len(sys.argv) > 1 else '/verif/.build/mir', solver=sys.argv[2] if len(sys.argv) > 2 else 'z3')
    print(json.dumps({k: v for k, v in r.items() if k != 'samples'}, indent=1)[:3000])
