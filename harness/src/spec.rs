//! Reference (mailbox / ray-walking) definitions.

/// squares attacked by a slider on `sq` along `dirs` given occupancy bitmask `occ`
pub fn ray_attacks(sq: u8, occ: u64, dirs: &[(i8, i8); 4]) -> u64 {
    let f0 = (sq & 7) as i8;
    let r0 = (sq >> 3) as i8;
    let mut res = 0u64;
    let mut d = 0;
    while d < 4 {
        let (df, dr) = dirs[d];
        let mut f = f0 + df;
        let mut r = r0 + dr;
        let mut k = 0;
        while k < 7 {
            if f < 0 || f > 7 || r < 0 || r > 7 { break; }
            let bit = 1u64 << ((r as u32) * 8 + f as u32);
            res |= bit;
            if occ & bit != 0 { break; }
            f += df; r += dr;
            k += 1;
        }
        d += 1;
    }
    res
}
pub const ROOK_DIRS: [(i8, i8); 4] = [(0, 1), (0, -1), (-1, 0), (1, 0)];
pub const BISHOP_DIRS: [(i8, i8); 4] = [(-1, 1), (-1, -1), (1, -1), (1, 1)];
pub fn rook_ref(sq: u8, occ: u64) -> u64 { ray_attacks(sq, occ, &ROOK_DIRS) }
pub fn bishop_ref(sq: u8, occ: u64) -> u64 { ray_attacks(sq, occ, &BISHOP_DIRS) }

// ---- mailbox reference over cells: 0 empty, 1..6 white P K N B R Q, 7..12 black
pub const EMPTY: u8 = 0;
pub fn color_of(c: u8) -> u8 { if c == 0 { 2 } else if c <= 6 { 0 } else { 1 } } // 0 white 1 black 2 none
pub fn piece_of(c: u8) -> u8 { if c == 0 { 6 } else { (c - 1) % 6 } } // 0 P 1 K 2 N 3 B 4 R 5 Q
pub fn mk(color: u8, piece: u8) -> u8 { 1 + color * 6 + piece }

fn on(f: i8, r: i8) -> bool { f >= 0 && f < 8 && r >= 0 && r < 8 }
fn idx(f: i8, r: i8) -> usize { (r as usize) * 8 + f as usize }

const KNIGHT_D: [(i8, i8); 8] = [(-2,-1),(-2,1),(-1,-2),(-1,2),(2,-1),(2,1),(1,-2),(1,2)];
const KING_D: [(i8, i8); 8] = [(-1,-1),(-1,0),(-1,1),(0,-1),(0,1),(1,-1),(1,0),(1,1)];

/// bitmask of men of colour `by` that attack square `sq` (pseudo-legal capture, no en passant)
pub fn attackers_ref(cells: &[u8; 64], sq: u8, by: u8) -> u64 {
    let f0 = (sq & 7) as i8;
    let r0 = (sq >> 3) as i8;
    let mut res = 0u64;
    // pawns: a white pawn (moving towards lower index rank) on (f±1, r+1) attacks (f, r)
    let pr = if by == 0 { r0 + 1 } else { r0 - 1 };
    let mut i = 0;
    while i < 2 {
        let pf = if i == 0 { f0 - 1 } else { f0 + 1 };
        if on(pf, pr) && cells[idx(pf, pr)] == mk(by, 0) { res |= 1u64 << idx(pf, pr); }
        i += 1;
    }
    let mut i = 0;
    while i < 8 {
        let (df, dr) = KNIGHT_D[i];
        if on(f0 + df, r0 + dr) && cells[idx(f0 + df, r0 + dr)] == mk(by, 2) { res |= 1u64 << idx(f0 + df, r0 + dr); }
        let (df, dr) = KING_D[i];
        if on(f0 + df, r0 + dr) && cells[idx(f0 + df, r0 + dr)] == mk(by, 1) { res |= 1u64 << idx(f0 + df, r0 + dr); }
        i += 1;
    }
    let mut d = 0;
    while d < 8 {
        let (df, dr) = KING_D[d];
        let diag = df != 0 && dr != 0;
        let mut f = f0 + df;
        let mut r = r0 + dr;
        let mut k = 0;
        while k < 7 {
            if !on(f, r) { break; }
            let c = cells[idx(f, r)];
            if c != EMPTY {
                if color_of(c) == by {
                    let p = piece_of(c);
                    if p == 5 || (diag && p == 3) || (!diag && p == 4) { res |= 1u64 << idx(f, r); }
                }
                break;
            }
            f += df; r += dr; k += 1;
        }
        d += 1;
    }
    res
}
