//! C05: incremental hash = from-scratch hash (delta + frame), key-table facts.
use crate::dom::*;
use crate::rules::*;
use crate::src::Src;
use owlchess::{moves, verif, CastlingRights, CastlingSide, Cell, Color, Coord};

fn zkey(c: u8, s: u8) -> u64 {
    if c == 0 {
        0
    } else {
        verif::z_pieces(Cell::from_index(c as usize), Coord::from_index(s as usize))
    }
}

/// hash difference implied by the from-scratch definition when only `sqs` may change
fn delta_ref(p: &Pos, q: &Pos, sqs: &[u8; 5]) -> u64 {
    let mut d = verif::z_move_side(); // the side always flips
    let mut i = 0;
    while i < 5 {
        let s = sqs[i];
        let mut dup = false;
        let mut j = 0;
        while j < i {
            if sqs[j] == s {
                dup = true;
            }
            j += 1;
        }
        if !dup {
            d ^= zkey(p.cells[s as usize], s) ^ zkey(q.cells[s as usize], s);
        }
        i += 1;
    }
    d ^= verif::z_castling(CastlingRights::from_index(p.castling as usize)) ^ verif::z_castling(CastlingRights::from_index(q.castling as usize));
    if p.ep != NONE {
        d ^= verif::z_enpassant(Coord::from_index(p.ep as usize));
    }
    if q.ep != NONE {
        d ^= verif::z_enpassant(Coord::from_index(q.ep as usize));
    }
    d
}

/// FULL (arbitrary pre-state hash h0 via S2) x all semilegal/null moves: frame + delta
pub fn hash_delta<S: Src, const SIDE: u8, const KG: u8>(s: &mut S) {
    crate::stubs::draw_hash_pool(s);
    let b0 = match any_board(s, SIDE) {
        Some(b) => b,
        None => return,
    };
    let p = pos_of(b0.raw());
    let m = any_m_g::<S, SIDE, KG>(s);
    vassume!(semilegal_ref(&p, m) || (m.kind == K_NULL && wf_ref(m)));
    let mv = mv_of(m);
    let mut b = b0.clone();
    let _u = unsafe { moves::make_move_unchecked(&mut b, mv) };
    let q = pos_of(b.raw());
    // squares that may change: src, dst, e.p. victim, castling rook from/to
    let base = if p.side == 0 { 56u8 } else { 0u8 };
    let (r1, r2) = match m.kind {
        K_OO => (base + 7, base + 5),
        K_OOO => (base, base + 3),
        _ => (m.src, m.dst),
    };
    let victim = if m.kind == K_EP { p.ep } else { m.src };
    let sqs = [m.src, m.dst, victim, r1, r2];
    let mut frame = true;
    let mut i = 0u8;
    while i < 64 {
        let touched = i == sqs[0] || i == sqs[1] || i == sqs[2] || i == sqs[3] || i == sqs[4];
        if !touched && p.cells[i as usize] != q.cells[i as usize] {
            frame = false;
        }
        i += 1;
    }
    vnote!("fen={} move={:?} after={} stored={:#x} scratch={:#x}", b0.as_fen(), mv, b.as_fen(), b.zobrist_hash(), b.raw().zobrist_hash());
    vassert!("frame: no square outside {src, dst, e.p. victim, rook from/to} changes", frame);
    vassert!("hash after = hash before ^ (keys of everything that changed)", b.zobrist_hash() == b0.zobrist_hash() ^ delta_ref(&p, &q, &sqs));
    vcover!("a move that changes the castling rights (king / rook / castling / promotion groups)", !(KG == KG_KING || KG == KG_ROOK || KG == KG_CASTLING || KG == KG_PSPECIAL) || p.castling != q.castling);
    vcover!("a capture (groups that can capture)", KG == KG_CASTLING || KG == KG_NULL || KG == KG_EP || p.cells[m.dst as usize] != 0);
    vcover!("the e.p. mark changes", p.ep != q.ep);
}

/// natively checkable form: stored hash after the move equals the from-scratch hash
/// (used only as the native replay of `hash_delta` counterexamples and in chain harnesses)
pub fn hash_matches_scratch(b: &owlchess::Board) -> bool {
    b.zobrist_hash() == b.raw().zobrist_hash()
}

fn color_of_idx(i: u8) -> Color {
    if i == 0 {
        Color::White
    } else {
        Color::Black
    }
}

/// position-free facts about the key tables of the build under test
pub fn hash_features<S: Src>(s: &mut S) {
    let c1 = 1 + s.below(12);
    let c2 = s.below(13);
    let sq = s.below(64);
    let k1 = zkey(c1, sq);
    vassert!("piece key is non-zero (one man on one square changes the hash)", k1 != 0);
    if c1 != c2 {
        vassert!("different men on one square hash differently", k1 != zkey(c2, sq));
    }
    vassert!("side key non-zero", verif::z_move_side() != 0);
    let a = s.below(16);
    let b = s.below(16);
    let za = verif::z_castling(CastlingRights::from_index(a as usize));
    let zb = verif::z_castling(CastlingRights::from_index(b as usize));
    if a != b {
        vassert!("different castling-right sets hash differently", za != zb);
    }
    vassert!("castling keys are XOR-linear in the rights", verif::z_castling(CastlingRights::from_index((a ^ b) as usize)) == za ^ zb);
    let e1 = s.below(64);
    let e2 = s.below(64);
    let ze1 = verif::z_enpassant(Coord::from_index(e1 as usize));
    vassert!("en-passant key non-zero", ze1 != 0);
    if e1 != e2 {
        vassert!("different en-passant marks hash differently", ze1 != verif::z_enpassant(Coord::from_index(e2 as usize)));
    }
    // the precombined castling deltas equal the four piece keys they stand for
    let ci = s.below(2);
    let col = color_of_idx(ci);
    let base = if ci == 0 { 56u8 } else { 0u8 };
    let king = 1 + 6 * ci + 1;
    let rook = 1 + 6 * ci + 4;
    vassert!("kingside castling delta = king e->g, rook h->f", verif::z_castling_delta(col, CastlingSide::King)
        == zkey(king, base + 4) ^ zkey(king, base + 6) ^ zkey(rook, base + 7) ^ zkey(rook, base + 5));
    vassert!("queenside castling delta = king e->c, rook a->d", verif::z_castling_delta(col, CastlingSide::Queen)
        == zkey(king, base + 4) ^ zkey(king, base + 2) ^ zkey(rook, base) ^ zkey(rook, base + 3));
}

/// from-scratch hash of a raw board = XOR of its feature keys (ties `zobrist_hash` to the key
/// tables; real function, no S2) and ignores both counters
pub fn scratch_hash_def<S: Src>(s: &mut S) {
    let raw = any_raw(s, ANY_SIDE);
    let p = pos_of(&raw);
    let mut want = if p.side == 0 { verif::z_move_side() } else { 0 };
    if p.ep != NONE {
        want ^= verif::z_enpassant(Coord::from_index(p.ep as usize));
    }
    want ^= verif::z_castling(CastlingRights::from_index(p.castling as usize));
    let mut i = 0u8;
    while i < 64 {
        want ^= zkey(p.cells[i as usize], i);
        i += 1;
    }
    let got = raw.zobrist_hash();
    vassert!("from-scratch hash = XOR of side, e.p., rights and piece keys", got == want);
    // `want` does not read the counters, so equality for every raw board implies that two boards
    // differing only in the counters hash equally
    let _ = s.u16();
}
