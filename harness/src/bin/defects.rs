//! Native demonstrations of the defects found by the checks (each prints what happens).
#[cfg(kani)]
fn main() {}
#[cfg(not(kani))]
fn main() {
    use owlchess::moves::{san, uci, make};
    use owlchess::{movegen::legal, Board, Make, Move, Piece, Coord, File, Rank};
    use std::panic;
    use std::str::FromStr;
    panic::set_hook(Box::new(|_| {}));
    // 1. en passant discovered check along the rank
    let b = Board::from_fen("8/8/8/K2Pp2r/8/8/8/7k w - e6 0 1").unwrap();
    let moves = legal::gen_all(&b);
    let bad: Vec<String> = moves.iter().filter(|m| m.validate(&b).is_err()).map(|m| m.to_string()).collect();
    println!("1. legal::gen_all yields illegal moves: {:?}", bad);
    let r = san::Move::from_str("dxe6").unwrap().make(&b);
    println!("   San dxe6 accepted: {} ; resulting board valid: {:?}", r.is_ok(), r.as_ref().ok().map(|x| Board::try_from(*x.raw()).is_ok()));
    let r = panic::catch_unwind(|| { let b = Board::from_fen("8/8/8/K2Pp2r/8/8/8/7k w - e6 0 1").unwrap(); make::San("de").make(&b).map(|x| Board::try_from(*x.raw()).is_ok()) });
    println!("   San de: {:?}", r);
    // 2. counters at u16::MAX
    for fen in ["4k3/8/8/8/8/8/8/4K2R w - - 65535 1", "4k3/8/8/8/8/8/8/4K2R b - - 0 65535"] {
        let r = panic::catch_unwind(|| { let b = Board::from_fen(fen).unwrap(); let mv = Move::from_uci_legal(if b.side()==owlchess::Color::White {"e1d1"} else {"e8d8"}, &b).unwrap(); b.make_move(mv).unwrap().as_fen() });
        println!("2. {} -> {:?}", fen, r);
    }
    // 3. parser panics
    for s in ["a\u{e9}4", "N", "R+", "\u{20ac}", "Nx", "K1"] {
        let r1 = panic::catch_unwind(|| uci::Move::from_str(s).is_ok());
        let r2 = panic::catch_unwind(|| san::Move::from_str(s).is_ok());
        println!("3. {:?}: uci {:?} san {:?}", s, r1.map_err(|_| "PANIC"), r2.map_err(|_| "PANIC"));
    }
    // 4. SAN Simple with a pawn
    let r = panic::catch_unwind(|| { let b = Board::initial(); san::Data::Simple { piece: Piece::Pawn, file: None, rank: None, is_capture: false, dst: Coord::from_parts(File::E, Rank::R4) }.into_move(&b).is_ok() });
    println!("4. Data::Simple{{Pawn}}.into_move: {:?}", r.map_err(|_| "PANIC"));
}
