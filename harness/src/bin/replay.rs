//! Native replay of a solver counterexample: the same harness body, the real crate, no stubs.
//! usage: replay <harness> <vals.json>      vals.json = [[b0,b1,..],[..],..] (Kani concrete playback)
//!        replay --list
#![cfg_attr(kani, allow(unused))]
#[cfg(kani)]
fn main() {}

#[cfg(not(kani))]
use hx::src::{native, BSrc};
#[cfg(not(kani))]
use std::panic;

#[cfg(not(kani))]
fn parse_vals(txt: &str) -> Vec<Vec<u8>> {
    // minimal parser for [[1,2],[3]] (digits, commas, brackets, whitespace)
    let mut out = Vec::new();
    let mut cur: Option<Vec<u8>> = None;
    let mut num: Option<u32> = None;
    let mut depth = 0;
    for ch in txt.chars() {
        match ch {
            '[' => {
                depth += 1;
                if depth == 2 {
                    cur = Some(Vec::new());
                }
            }
            ']' => {
                if let (Some(n), Some(c)) = (num.take(), cur.as_mut()) {
                    c.push(n as u8);
                }
                if depth == 2 {
                    out.push(cur.take().unwrap());
                }
                depth -= 1;
            }
            ',' => {
                if let (Some(n), Some(c)) = (num.take(), cur.as_mut()) {
                    c.push(n as u8);
                }
            }
            d if d.is_ascii_digit() => {
                num = Some(num.unwrap_or(0) * 10 + d.to_digit(10).unwrap());
            }
            _ => {}
        }
    }
    out
}

#[cfg(not(kani))]
fn esc(s: &str) -> String {
    let mut o = String::new();
    for c in s.chars() {
        match c {
            '"' => o.push_str("\\\""),
            '\\' => o.push_str("\\\\"),
            '\n' => o.push_str("\\n"),
            c if (c as u32) < 0x20 => o.push_str(&format!("\\u{:04x}", c as u32)),
            c => o.push(c),
        }
    }
    o
}

#[cfg(not(kani))]
fn main() {
    let args: Vec<String> = std::env::args().collect();
    if args.len() == 2 && args[1] == "--list" {
        for n in hx::registry::NAMES {
            println!("{}", n);
        }
        return;
    }
    if args.len() == 3 && args[1] == "--attack" {
        // translator validation for engine B: lines "rook|bishop <sq> <occ>" -> the real look-up's answer
        let txt = std::fs::read_to_string(&args[2]).expect("read");
        for line in txt.lines() {
            let p: Vec<&str> = line.split_whitespace().collect();
            if p.len() != 3 {
                continue;
            }
            let sq: usize = p[1].parse().unwrap();
            let occ: u64 = p[2].parse().unwrap();
            let c = owlchess::Coord::from_index(sq);
            let o = owlchess::Bitboard::from_raw(occ);
            let r = if p[0] == "rook" { owlchess::verif::rook(c, o) } else { owlchess::verif::bishop(c, o) };
            println!("{}", r.as_raw());
        }
        return;
    }
    if args.len() != 3 {
        eprintln!("usage: replay <harness> <vals.json>");
        std::process::exit(2);
    }
    let body = match hx::registry::lookup(&args[1]) {
        Some(b) => b,
        None => {
            eprintln!("unknown harness {}", args[1]);
            std::process::exit(2);
        }
    };
    let txt = std::fs::read_to_string(&args[2]).expect("read vals");
    // accept either a bare list or an object with a "vals" key
    let txt = match txt.find("\"vals\"") {
        Some(i) => txt[i + 6..].to_string(),
        None => txt,
    };
    let vals = parse_vals(&txt);
    native::reset();
    panic::set_hook(Box::new(|_| {}));
    let mut src = BSrc::new(vals);
    let r = panic::catch_unwind(panic::AssertUnwindSafe(|| body(&mut src)));
    let panic_msg = match &r {
        Ok(()) => None,
        Err(e) => Some(
            e.downcast_ref::<&str>()
                .map(|s| s.to_string())
                .or_else(|| e.downcast_ref::<String>().cloned())
                .unwrap_or_else(|| "panic".to_string()),
        ),
    };
    let failed = native::FAILED.with(|f| f.borrow().clone());
    let vac = native::VACUOUS.with(|v| *v.borrow());
    let notes = native::NOTES.with(|n| n.borrow().clone());
    let outcome = if panic_msg.is_some() {
        "panic"
    } else if !failed.is_empty() {
        "fail"
    } else if vac || src.exhausted {
        "vacuous"
    } else {
        "pass"
    };
    let fl: Vec<String> = failed.iter().map(|s| format!("\"{}\"", esc(s))).collect();
    let nl: Vec<String> = notes.iter().map(|s| format!("\"{}\"", esc(s))).collect();
    println!(
        "{{\"outcome\":\"{}\",\"failed\":[{}],\"panic\":{},\"notes\":[{}],\"consumed\":{},\"profile\":\"{}\"}}",
        outcome,
        fl.join(","),
        match &panic_msg {
            Some(m) => format!("\"{}\"", esc(m)),
            None => "null".to_string(),
        },
        nl.join(","),
        src.pos,
        if cfg!(debug_assertions) { "dev" } else { "release" }
    );
}
