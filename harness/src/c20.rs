//! C20: value types convert losslessly; bitboards behave as sets of squares.
//! All harnesses are position-free and complete over their finite / 64-bit domains.
use crate::src::Src;
use owlchess::types::{CastlingRights, CastlingSide, Cell, Color, Coord, File, Piece, Rank};
use owlchess::Bitboard;
use owlchess_base::{bitboard_consts, geometry};

fn color_of_idx(i: u8) -> Color {
    if i == 0 {
        Color::White
    } else {
        Color::Black
    }
}

/// index <-> value round trips for every in-range index of every type
pub fn index_roundtrip<S: Src>(s: &mut S) {
    let f = s.below(8) as usize;
    vassert!("File index round trip", File::from_index(f).index() == f);
    let r = s.below(8) as usize;
    vassert!("Rank index round trip", Rank::from_index(r).index() == r);
    let c = s.below(64) as usize;
    let co = Coord::from_index(c);
    vassert!("Coord index round trip", co.index() == c);
    vassert!("Coord file/rank = index % 8, index / 8", co.file().index() == c % 8 && co.rank().index() == c / 8);
    vassert!("Coord::from_parts inverse of (file, rank)", Coord::from_parts(co.file(), co.rank()) == co);
    vassert!("Coord::from_parts(f, r).index() = 8r + f", Coord::from_parts(File::from_index(f), Rank::from_index(r)).index() == 8 * r + f);
    let p = s.below(6) as usize;
    vassert!("Piece index round trip", Piece::from_index(p).index() == p);
    let ce = s.below(13) as usize;
    let cell = Cell::from_index(ce);
    vassert!("Cell index round trip", cell.index() == ce);
    vassert!("Cell free/occupied", cell.is_free() == (ce == 0) && cell.is_occupied() == (ce != 0));
    match (cell.color(), cell.piece()) {
        (None, None) => vassert!("only the empty cell has no colour/piece", ce == 0),
        (Some(col), Some(pc)) => {
            vassert!("Cell::from_parts inverse of (color, piece)", Cell::from_parts(col, pc) == cell);
            vassert!("cell index = 1 + 6*colour + piece", ce == 1 + 6 * (col as usize) + pc.index());
        }
        _ => vassert!("colour and piece are both present or both absent", false),
    }
    let col = color_of_idx(s.below(2));
    let pc = Piece::from_index(p);
    let made = Cell::from_parts(col, pc);
    vassert!("from_parts -> color/piece round trip", made.color() == Some(col) && made.piece() == Some(pc));
    vassert!("Color::inv is an involution without fixed point", col.inv() != col && col.inv().inv() == col);
    let cr = s.below(16) as usize;
    vassert!("CastlingRights index round trip", CastlingRights::from_index(cr).index() == cr);
    vcover!("last cell", ce == 12);
    vcover!("last coord", c == 63);
}

/// checked constructors reject exactly the out-of-range indices (should_panic harnesses:
/// the cover after the call must be unreachable)
pub fn file_from_index_rejects<S: Src>(s: &mut S) {
    let v = s.usize();
    vassume!(v >= 8);
    let _ = File::from_index(v);
    vcover!("never: File::from_index returned for an out-of-range index", true);
}
pub fn rank_from_index_rejects<S: Src>(s: &mut S) {
    let v = s.usize();
    vassume!(v >= 8);
    let _ = Rank::from_index(v);
    vcover!("never: Rank::from_index returned for an out-of-range index", true);
}
pub fn coord_from_index_rejects<S: Src>(s: &mut S) {
    let v = s.usize();
    vassume!(v >= 64);
    let _ = Coord::from_index(v);
    vcover!("never: Coord::from_index returned for an out-of-range index", true);
}
pub fn piece_from_index_rejects<S: Src>(s: &mut S) {
    let v = s.usize();
    vassume!(v >= 6);
    let _ = Piece::from_index(v);
    vcover!("never: Piece::from_index returned for an out-of-range index", true);
}
pub fn cell_from_index_rejects<S: Src>(s: &mut S) {
    let v = s.usize();
    vassume!(v >= 13);
    let _ = Cell::from_index(v);
    vcover!("never: Cell::from_index returned for an out-of-range index", true);
}
pub fn castling_from_index_rejects<S: Src>(s: &mut S) {
    let v = s.usize();
    vassume!(v >= 16);
    let _ = CastlingRights::from_index(v);
    vcover!("never: CastlingRights::from_index returned for an out-of-range index", true);
}
pub fn coord_add_rejects<S: Src>(s: &mut S) {
    let c = s.below(64) as isize;
    let d = s.u8() as i8 as isize;
    vassume!(c + d < 0 || c + d >= 64);
    let _ = Coord::from_index(c as usize).add(d);
    vcover!("never: Coord::add returned an off-board square", true);
}

/// character forms: accepted spellings are exactly the documented ones, for every `char`
pub fn char_forms<S: Src>(s: &mut S) {
    let v = (s.u16() as u32) | ((s.below(0x11) as u32) << 16);
    let ch = match char::from_u32(v) {
        Some(c) => c,
        None => return,
    };
    match File::from_char(ch) {
        Some(f) => {
            vassert!("File::from_char accepts only a..h", v >= 'a' as u32 && v <= 'h' as u32 && f.index() as u32 == v - 'a' as u32);
            vassert!("File char round trip", f.as_char() == ch);
        }
        None => vassert!("File::from_char rejects only non a..h", !(v >= 'a' as u32 && v <= 'h' as u32)),
    }
    match Rank::from_char(ch) {
        Some(r) => {
            vassert!("Rank::from_char accepts only 1..8", v >= '1' as u32 && v <= '8' as u32 && r.index() as u32 == '8' as u32 - v);
            vassert!("Rank char round trip", r.as_char() == ch);
        }
        None => vassert!("Rank::from_char rejects only non 1..8", !(v >= '1' as u32 && v <= '8' as u32)),
    }
    match Color::from_char(ch) {
        Some(c) => {
            vassert!("Color::from_char accepts only w/b", (ch == 'w' && c == Color::White) || (ch == 'b' && c == Color::Black));
            vassert!("Color char round trip", c.as_char() == ch);
        }
        None => vassert!("Color::from_char rejects only non w/b", ch != 'w' && ch != 'b'),
    }
    const SPELL: [u8; 13] = *b".PKNBRQpknbrq";
    let mut want: Option<usize> = None;
    let mut i = 0;
    while i < 13 {
        if v == SPELL[i] as u32 {
            want = Some(i);
        }
        i += 1;
    }
    match Cell::from_char(ch) {
        Some(c) => {
            vassert!("Cell::from_char accepts only .PKNBRQpknbrq", want == Some(c.index()));
            vassert!("Cell char round trip", c.as_char() == ch);
        }
        None => vassert!("Cell::from_char rejects only other characters", want.is_none()),
    }
    vcover!("a file letter", ch == 'e');
    vcover!("non-ASCII char", v > 0x7f);
    vcover!("uppercase piece", ch == 'Q');
}

/// as_char for every value parses back
pub fn as_char_roundtrip<S: Src>(s: &mut S) {
    let f = File::from_index(s.below(8) as usize);
    vassert!("File as_char -> from_char", File::from_char(f.as_char()) == Some(f));
    let r = Rank::from_index(s.below(8) as usize);
    vassert!("Rank as_char -> from_char", Rank::from_char(r.as_char()) == Some(r));
    let c = Cell::from_index(s.below(13) as usize);
    vassert!("Cell as_char -> from_char", Cell::from_char(c.as_char()) == Some(c));
    let col = color_of_idx(s.below(2));
    vassert!("Color as_char -> from_char", Color::from_char(col.as_char()) == Some(col));
    vassert!("rank 1 is spelled '1'", Rank::R1.as_char() == '1' && Rank::R8.as_char() == '8');
}

fn cside(i: u8) -> CastlingSide {
    if i == 0 {
        CastlingSide::Queen
    } else {
        CastlingSide::King
    }
}

/// castling rights against a 4-bit set model
pub fn castling_rights_model<S: Src>(s: &mut S) {
    let v = s.below(16);
    let cr = CastlingRights::from_index(v as usize);
    let ci = s.below(2);
    let si = s.below(2);
    let (c, sd) = (color_of_idx(ci), cside(si));
    let bit = 1u8 << ((ci << 1) | si);
    vassert!("has = bit test", cr.has(c, sd) == (v & bit != 0));
    vassert!("has_color = either bit of the colour", cr.has_color(c) == (v & (3 << (ci << 1)) != 0));
    vassert!("with = set insert", cr.with(c, sd).index() as u8 == v | bit);
    vassert!("without = set remove", cr.without(c, sd).index() as u8 == v & !bit);
    let mut m = cr;
    m.set(c, sd);
    vassert!("set = with", m == cr.with(c, sd));
    let mut m = cr;
    m.unset(c, sd);
    vassert!("unset = without", m == cr.without(c, sd));
    let mut m = cr;
    m.unset_color(c);
    vassert!("unset_color clears both bits of the colour only", m.index() as u8 == v & !(3 << (ci << 1)));
    vassert!("EMPTY / FULL", CastlingRights::EMPTY.index() == 0 && CastlingRights::FULL.index() == 15);
    // white queen = bit 0, white king = bit 1, black queen = bit 2, black king = bit 3
    vassert!("bit layout", CastlingRights::EMPTY.with(Color::White, CastlingSide::Queen).index() == 1
        && CastlingRights::EMPTY.with(Color::White, CastlingSide::King).index() == 2
        && CastlingRights::EMPTY.with(Color::Black, CastlingSide::Queen).index() == 4
        && CastlingRights::EMPTY.with(Color::Black, CastlingSide::King).index() == 8);
}

/// bitboard operators against per-square set semantics, for all 64-bit values
pub fn bitboard_set_ops<S: Src>(s: &mut S) {
    let a = s.u64();
    let b = s.u64();
    let sq = s.below(64) as usize;
    let c = Coord::from_index(sq);
    let (ba, bb) = (Bitboard::from_raw(a), Bitboard::from_raw(b));
    let ina = (a >> sq) & 1 != 0;
    let inb = (b >> sq) & 1 != 0;
    vassert!("has = membership", ba.has(c) == ina);
    vassert!("union", (ba | bb).has(c) == (ina || inb));
    vassert!("intersection", (ba & bb).has(c) == (ina && inb));
    vassert!("symmetric difference", (ba ^ bb).has(c) == (ina != inb));
    vassert!("complement", (!ba).has(c) == !ina);
    let o = s.below(64) as usize;
    let oc = Coord::from_index(o);
    vassert!("with = insert", ba.with(oc).has(c) == (ina || o == sq));
    vassert!("without = remove", ba.without(oc).has(c) == (ina && o != sq));
    vassert!("with2/without2 agree with with/without", ba.with2(oc.file(), oc.rank()) == ba.with(oc) && ba.without2(oc.file(), oc.rank()) == ba.without(oc));
    let mut m = ba;
    m.set(oc);
    vassert!("set = with", m == ba.with(oc));
    let mut m = ba;
    m.unset(oc);
    vassert!("unset = without", m == ba.without(oc));
    vassert!("from_coord is the singleton", Bitboard::from_coord(oc).has(c) == (o == sq));
    vassert!("is_empty / is_nonempty", ba.is_empty() == (a == 0) && ba.is_nonempty() == (a != 0));
    vassert!("raw round trip", Bitboard::from_raw(a).as_raw() == a && u64::from(Bitboard::from(a)) == a);
    vassert!("flipped_rank mirrors membership", ba.flipped_rank().has(c.flipped_rank()) == ina);
    vassert!("flipped_file mirrors membership", ba.flipped_file().has(c.flipped_file()) == ina);
    vassert!("EMPTY / FULL", !Bitboard::EMPTY.has(c) && Bitboard::FULL.has(c));
    vcover!("both sets contain the square", ina && inb);
}

/// len = number of members (bit by bit)
pub fn bitboard_len<S: Src>(s: &mut S) {
    let a = s.u64();
    let mut n = 0u32;
    let mut i = 0;
    while i < 64 {
        if (a >> i) & 1 != 0 {
            n += 1;
        }
        i += 1;
    }
    vassert!("len = number of members", Bitboard::from_raw(a).len() == n);
    vcover!("full set", n == 64);
}

/// iteration yields exactly the members in ascending order (sets with at most MAXN members)
pub fn bitboard_iter<S: Src, const MAXN: u32>(s: &mut S) {
    let a = s.u64();
    vassume!(a.count_ones() <= MAXN);
    let mut it = Bitboard::from_raw(a).into_iter();
    let mut seen = 0u64;
    let mut last: i32 = -1;
    let mut n = 0u32;
    let mut ok = true;
    let mut k = 0;
    while k < MAXN + 1 {
        match it.next() {
            Some(c) => {
                let i = c.index() as i32;
                if i <= last || (a >> i) & 1 == 0 {
                    ok = false;
                }
                last = i;
                seen |= 1u64 << i;
                n += 1;
            }
            None => break,
        }
        k += 1;
    }
    vassert!("iteration is strictly ascending over members only", ok);
    vassert!("iteration yields every member", seen == a);
    vassert!("iteration ends after len items", n == a.count_ones() && it.next().is_none());
    vcover!("all allowed members present", n == MAXN);
}

/// one step of the iterator from ANY state: yields the lowest member and the remaining state is
/// the set without it (the private state is read back through its layout: one u64).  By induction
/// on the number of members this gives "exactly the members, ascending" for every 64-bit set.
pub fn bitboard_iter_step<S: Src>(s: &mut S) {
    let a = s.u64();
    let mut it = Bitboard::from_raw(a).into_iter();
    let st0: u64 = unsafe { core::mem::transmute_copy(&it) };
    vassert!("initial iterator state is the set itself", core::mem::size_of_val(&it) == 8 && st0 == a);
    let first = it.next();
    let st1: u64 = unsafe { core::mem::transmute_copy(&it) };
    let mut low: Option<usize> = None;
    let mut i = 64usize;
    while i > 0 {
        i -= 1;
        if (a >> i) & 1 != 0 {
            low = Some(i);
        }
    }
    match first {
        None => vassert!("next() is None exactly on the empty set", a == 0 && st1 == 0),
        Some(c) => {
            vassert!("next() yields the lowest member", low == Some(c.index()));
            vassert!("remaining state = set without its lowest member", st1 == a & !(1u64 << c.index()));
        }
    }
    vcover!("highest square only", a == 1u64 << 63);
    vcover!("empty set", a == 0);
}

/// deposit_bits against a bit-by-bit definition
pub fn deposit_bits_exact<S: Src>(s: &mut S) {
    let mask = s.u64();
    let x = s.u64();
    let got = Bitboard::from_raw(mask).deposit_bits(x).as_raw();
    let mut want = 0u64;
    let mut k = 0u32; // number of mask bits seen so far
    let mut i = 0;
    while i < 64 {
        if (mask >> i) & 1 != 0 {
            if k < 64 && (x >> k) & 1 != 0 {
                want |= 1u64 << i;
            }
            k += 1;
        }
        i += 1;
    }
    vassert!("deposit_bits = k-th low bit of x goes to the k-th member of the mask", got == want);
    vcover!("sparse mask", mask.count_ones() == 5 && want.count_ones() == 3);
}

/// square arithmetic against (file, rank) geometry
pub fn coord_geometry<S: Src>(s: &mut S) {
    let i = s.below(64) as usize;
    let c = Coord::from_index(i);
    let (f, r) = ((i % 8) as isize, (i / 8) as isize);
    vassert!("flipped_rank keeps the file, mirrors the rank", c.flipped_rank().file() == c.file() && c.flipped_rank().rank().index() as isize == 7 - r);
    vassert!("flipped_file keeps the rank, mirrors the file", c.flipped_file().rank() == c.rank() && c.flipped_file().file().index() as isize == 7 - f);
    vassert!("diag = file + rank index", c.diag() as isize == f + r);
    vassert!("antidiag = 7 - rank index + file", c.antidiag() as isize == 7 - r + f);
    let df = (s.u8() as i8) as isize;
    let dr = (s.u8() as i8) as isize;
    let (nf, nr) = (f + df, r + dr);
    match c.shift(df, dr) {
        Some(d) => vassert!("shift lands on (file+df, rank+dr) when on board", nf >= 0 && nf < 8 && nr >= 0 && nr < 8 && d.index() as isize == nr * 8 + nf),
        None => vassert!("shift is None exactly off board", !(nf >= 0 && nf < 8 && nr >= 0 && nr < 8)),
    }
    let d = (s.u8() as i8) as isize;
    if i as isize + d >= 0 && i as isize + d < 64 {
        vassert!("add = index arithmetic", c.add(d).index() as isize == i as isize + d);
    }
    // named squares
    vassert!("a8 has index 0, h1 index 63", Coord::from_parts(File::A, Rank::R8).index() == 0 && Coord::from_parts(File::H, Rank::R1).index() == 63);
    vcover!("shift leaves the board", c.shift(df, dr).is_none());
    vcover!("shift stays on board far away", c.shift(df, dr).is_some() && (df > 3 || dr < -3));
}

/// named bitboard constants contain exactly the squares their names say
pub fn bitboard_constants<S: Src>(s: &mut S) {
    let i = s.below(64) as usize;
    let c = Coord::from_index(i);
    let (f, r) = (i % 8, i / 8);
    let d = s.below(15) as usize;
    vassert!("DIAG[d] = squares with file+rank index = d", bitboard_consts::DIAG[d].has(c) == (f + r == d));
    vassert!("ANTIDIAG[d] = squares with 7-rank+file = d", bitboard_consts::ANTIDIAG[d].has(c) == (7 - r + f == d));
    let k = s.below(8) as usize;
    vassert!("rank(k) = squares of that rank", bitboard_consts::rank(Rank::from_index(k)).has(c) == (r == k));
    vassert!("file(k) = squares of that file", bitboard_consts::file(File::from_index(k)).has(c) == (f == k));
    // a1 (file 0, rank index 7) is a dark square: dark <=> (file + rank index) odd
    let dark = (f + r) % 2 == 1;
    vassert!("DARK_SQUARES", bitboard_consts::DARK_SQUARES.has(c) == dark);
    vassert!("LIGHT_SQUARES", bitboard_consts::LIGHT_SQUARES.has(c) == !dark);
    vassert!("a1 is dark, h1 is light", bitboard_consts::DARK_SQUARES.has(Coord::from_parts(File::A, Rank::R1)) && bitboard_consts::LIGHT_SQUARES.has(Coord::from_parts(File::H, Rank::R1)));
}

/// the geometry table against the board picture
pub fn geometry_table<S: Src>(s: &mut S) {
    let ci = s.below(2);
    let c = color_of_idx(ci);
    let w = ci == 0;
    vassert!("castling rank", geometry::castling_rank(c) == if w { Rank::R1 } else { Rank::R8 });
    vassert!("double step from", geometry::double_move_src_rank(c) == if w { Rank::R2 } else { Rank::R7 });
    vassert!("double step to", geometry::double_move_dst_rank(c) == if w { Rank::R4 } else { Rank::R5 });
    vassert!("promotion from", geometry::promote_src_rank(c) == if w { Rank::R7 } else { Rank::R2 });
    vassert!("promotion to", geometry::promote_dst_rank(c) == if w { Rank::R8 } else { Rank::R1 });
    vassert!("en passant from", geometry::enpassant_src_rank(c) == if w { Rank::R5 } else { Rank::R4 });
    vassert!("en passant to", geometry::enpassant_dst_rank(c) == if w { Rank::R6 } else { Rank::R3 });
    // deltas: forward = one rank towards the opponent; left/right from the mover's... board files
    let sq = Coord::from_parts(File::D, Rank::R4);
    let fwd = sq.add(geometry::pawn_forward_delta(c));
    vassert!("forward delta", fwd.file() == File::D && fwd.rank() == if w { Rank::R5 } else { Rank::R3 });
    let l = sq.add(geometry::pawn_left_delta(c));
    vassert!("left delta", l.file() == File::C && l.rank() == fwd.rank());
    let rr = sq.add(geometry::pawn_right_delta(c));
    vassert!("right delta", rr.file() == File::E && rr.rank() == fwd.rank());
}
