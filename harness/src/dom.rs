//! Symbolic domains: FULL boards, move tuples, GEN(k) bound, byte strings.

use crate::rules::*;
use crate::src::Src;
use owlchess::{Board, CastlingRights, Cell, Color, Coord, Move, MoveKind, Piece, RawBoard};

/// side selector for case splits (constant at symbolic-execution time)
pub const ANY_SIDE: u8 = 2;
pub const WHITE: u8 = 0;
pub const BLACK: u8 = 1;

/// Every raw board: 64 cells < 13, side, castling < 16, e.p. mark None/any square, counters.
pub fn any_raw<S: Src>(s: &mut S, side: u8) -> RawBoard {
    let mut raw = RawBoard::empty();
    let mut i = 0;
    while i < 64 {
        let c = s.below(13);
        raw.cells[i] = Cell::from_index(c as usize);
        i += 1;
    }
    raw.side = match side {
        WHITE => Color::White,
        BLACK => Color::Black,
        _ => {
            if s.bool() {
                Color::White
            } else {
                Color::Black
            }
        }
    };
    let cr = s.below(16);
    raw.castling = CastlingRights::from_index(cr as usize);
    if s.bool() {
        let ep = s.below(64);
        raw.ep_source = Some(Coord::from_index(ep as usize));
    }
    raw.move_counter = s.u16();
    raw.move_number = s.u16();
    raw
}

/// FULL: every position accepted by the real validator.
pub fn any_board<S: Src>(s: &mut S, side: u8) -> Option<Board> {
    let raw = any_raw(s, side);
    match Board::try_from(raw) {
        Ok(b) => Some(b),
        Err(_) => None,
    }
}

pub fn pos_of(raw: &RawBoard) -> Pos {
    let mut cells = [0u8; 64];
    let mut i = 0;
    while i < 64 {
        cells[i] = raw.cells[i].index() as u8;
        i += 1;
    }
    Pos {
        cells,
        side: match raw.side {
            Color::White => 0,
            Color::Black => 1,
        },
        castling: raw.castling.index() as u8,
        ep: match raw.ep_source {
            Some(c) => c.index() as u8,
            None => NONE,
        },
        mc: raw.move_counter,
        mn: raw.move_number,
    }
}

pub fn raw_of(p: &Pos) -> RawBoard {
    let mut raw = RawBoard::empty();
    let mut i = 0;
    while i < 64 {
        raw.cells[i] = Cell::from_index(p.cells[i] as usize);
        i += 1;
    }
    raw.side = if p.side == 0 { Color::White } else { Color::Black };
    raw.castling = CastlingRights::from_index(p.castling as usize);
    raw.ep_source = if p.ep == NONE { None } else { Some(Coord::from_index(p.ep as usize)) };
    raw.move_counter = p.mc;
    raw.move_number = p.mn;
    raw
}

pub fn kind_of(k: u8) -> MoveKind {
    match k {
        0 => MoveKind::Null,
        1 => MoveKind::Simple,
        2 => MoveKind::CastlingKingside,
        3 => MoveKind::CastlingQueenside,
        4 => MoveKind::PawnDouble,
        5 => MoveKind::Enpassant,
        6 => MoveKind::PromoteKnight,
        7 => MoveKind::PromoteBishop,
        8 => MoveKind::PromoteRook,
        _ => MoveKind::PromoteQueen,
    }
}

/// Any of the 10 x 13 x 64 x 64 move tuples.
pub fn any_m<S: Src>(s: &mut S) -> M {
    let kind = s.below(10);
    let cell = s.below(13);
    let src = s.below(64);
    let dst = s.below(64);
    M { kind, cell, src, dst }
}

/// Move-kind groups used for case splits (constant at symbolic-execution time).
/// king .. castling partition the non-null moves of the side to move; `foreign` holds every tuple
/// whose cell is empty or of the other colour (never semilegal); `null` is the null move.
pub const KG_ANY: u8 = 0;
pub const KG_KING: u8 = 1; // Simple moved by the king
pub const KG_PAWN: u8 = 2; // Simple moved by a pawn
pub const KG_KNIGHT: u8 = 3;
pub const KG_BISHOP: u8 = 4;
pub const KG_ROOK: u8 = 5;
pub const KG_QUEEN: u8 = 6;
pub const KG_PSPECIAL: u8 = 7; // double step + the four promotions
pub const KG_EP: u8 = 8;
pub const KG_CASTLING: u8 = 9;
pub const KG_NULL: u8 = 10;
pub const KG_FOREIGN: u8 = 11;

/// membership of a tuple in a group, for the side to move `side` (0 white, 1 black)
pub fn in_group(m: M, g: u8, side: u8) -> bool {
    let p = crate::spec::piece_of(m.cell);
    let own = m.cell != 0 && crate::spec::color_of(m.cell) == side;
    if g == KG_ANY {
        return true;
    }
    if m.kind == K_NULL {
        return g == KG_NULL;
    }
    if !own {
        return g == KG_FOREIGN;
    }
    match g {
        KG_KING => m.kind == K_SIMPLE && p == K,
        KG_PAWN => m.kind == K_SIMPLE && p == P,
        KG_KNIGHT => m.kind == K_SIMPLE && p == N,
        KG_BISHOP => m.kind == K_SIMPLE && p == B,
        KG_ROOK => m.kind == K_SIMPLE && p == R,
        KG_QUEEN => m.kind == K_SIMPLE && p == Q,
        // kinds that do not match the piece are never well-formed; they live in the group of their kind
        KG_PSPECIAL => m.kind == K_DOUBLE || m.kind >= K_PN,
        KG_EP => m.kind == K_EP,
        KG_CASTLING => m.kind == K_OO || m.kind == K_OOO,
        _ => false,
    }
}

/// every tuple of group KG for side SIDE, with as much of it constant as the group allows
/// (this is what makes a case cheaper than the whole: dead branches fold away in symbolic execution)
pub fn any_m_g<S: Src, const SIDE: u8, const KG: u8>(s: &mut S) -> M {
    let own = |p: u8| crate::spec::mk(SIDE, p);
    let src = s.below(64);
    let dst = s.below(64);
    let m = match KG {
        KG_KING => M { kind: K_SIMPLE, cell: own(K), src, dst },
        KG_PAWN => M { kind: K_SIMPLE, cell: own(P), src, dst },
        KG_KNIGHT => M { kind: K_SIMPLE, cell: own(N), src, dst },
        KG_BISHOP => M { kind: K_SIMPLE, cell: own(B), src, dst },
        KG_ROOK => M { kind: K_SIMPLE, cell: own(R), src, dst },
        KG_QUEEN => M { kind: K_SIMPLE, cell: own(Q), src, dst },
        // the special kinds are built geometrically: exactly the well-formed tuples of the group
        // (every harness that uses groups assumes well-formedness or semilegality anyway; the
        // ill-formed tuples are decided by `wellformed_exact` over all 532 480 tuples)
        KG_EP => {
            let f = src & 7;
            let left = dst & 1 == 0;
            let from = (if SIDE == WHITE { 24 } else { 32 }) + f;
            let to_f = if left { f.wrapping_sub(1) } else { f + 1 } & 7;
            let to = (if SIDE == WHITE { 16 } else { 40 }) + to_f;
            M { kind: K_EP, cell: own(P), src: from, dst: to }
        }
        KG_CASTLING => {
            let base = if SIDE == WHITE { 56 } else { 0 };
            if s.bool() {
                M { kind: K_OO, cell: own(K), src: base + 4, dst: base + 6 }
            } else {
                M { kind: K_OOO, cell: own(K), src: base + 4, dst: base + 2 }
            }
        }
        KG_PSPECIAL => {
            let k = s.below(5);
            let f = src & 7;
            if k == 0 {
                let from = (if SIDE == WHITE { 48 } else { 8 }) + f;
                M { kind: K_DOUBLE, cell: own(P), src: from, dst: if SIDE == WHITE { from - 16 } else { from + 16 } }
            } else {
                let from = (if SIDE == WHITE { 8 } else { 48 }) + f;
                let d = dst % 3; // 0 straight, 1 towards file a, 2 towards file h
                let to_f = (if d == 0 { f } else if d == 1 { f.wrapping_sub(1) } else { f + 1 }) & 7;
                M { kind: K_PN + k - 1, cell: own(P), src: from, dst: (if SIDE == WHITE { 0 } else { 56 }) + to_f }
            }
        }
        KG_NULL => M { kind: K_NULL, cell: s.below(13), src, dst },
        KG_FOREIGN => {
            // empty cell or a man of the side not to move, any non-null kind
            let c = s.below(7);
            let cell = if c == 0 { 0 } else { crate::spec::mk(1 - SIDE, c - 1) };
            M { kind: 1 + s.below(9), cell, src, dst }
        }
        _ => {
            let kind = s.below(10);
            let cell = s.below(13);
            M { kind, cell, src, dst }
        }
    };
    m
}

pub fn mv_of(m: M) -> Move {
    unsafe {
        Move::new_unchecked(
            kind_of(m.kind),
            Cell::from_index(m.cell as usize),
            Coord::from_index(m.src as usize),
            Coord::from_index(m.dst as usize),
        )
    }
}

pub fn m_of(mv: Move) -> M {
    M {
        kind: mv.kind() as u8,
        cell: mv.src_cell().index() as u8,
        src: mv.src().index() as u8,
        dst: mv.dst().index() as u8,
    }
}

pub fn men_of(b: &Board, c: Color, p: Piece) -> u32 {
    b.piece2(c, p).len()
}

/// GEN(kp, kn): the side to move has at most kp pawns and at most kn men of each other non-king
/// kind (the opponent stays arbitrary).  GEN(k) = GEN(k, k).
pub fn gen_bound2(b: &Board, kp: u32, kn: u32) -> bool {
    let us = b.side();
    men_of(b, us, Piece::Pawn) <= kp
        && men_of(b, us, Piece::Knight) <= kn
        && men_of(b, us, Piece::Bishop) <= kn
        && men_of(b, us, Piece::Rook) <= kn
        && men_of(b, us, Piece::Queen) <= kn
}
pub fn gen_bound(b: &Board, k: u32) -> bool {
    gen_bound2(b, k, k)
}

pub fn occ_of(cells: &[u8; 64], pred: impl Fn(u8) -> bool) -> u64 {
    let mut r = 0u64;
    let mut i = 0;
    while i < 64 {
        if pred(cells[i]) {
            r |= 1u64 << i;
        }
        i += 1;
    }
    r
}

/// Reference UTF-8 well-formedness (Unicode table 3-7) of `buf[..len]`.
pub fn utf8_ok(buf: &[u8], len: usize) -> bool {
    let mut i = 0;
    // at most `len` iterations; callers pass len <= 8
    while i < len {
        let b0 = buf[i];
        if b0 < 0x80 {
            i += 1;
        } else if b0 >= 0xC2 && b0 <= 0xDF {
            if i + 1 >= len || buf[i + 1] & 0xC0 != 0x80 {
                return false;
            }
            i += 2;
        } else if b0 >= 0xE0 && b0 <= 0xEF {
            if i + 2 >= len {
                return false;
            }
            let b1 = buf[i + 1];
            let lo = if b0 == 0xE0 { 0xA0 } else { 0x80 };
            let hi = if b0 == 0xED { 0x9F } else { 0xBF };
            if b1 < lo || b1 > hi || buf[i + 2] & 0xC0 != 0x80 {
                return false;
            }
            i += 3;
        } else if b0 >= 0xF0 && b0 <= 0xF4 {
            if i + 3 >= len {
                return false;
            }
            let b1 = buf[i + 1];
            let lo = if b0 == 0xF0 { 0x90 } else { 0x80 };
            let hi = if b0 == 0xF4 { 0x8F } else { 0xBF };
            if b1 < lo || b1 > hi || buf[i + 2] & 0xC0 != 0x80 || buf[i + 3] & 0xC0 != 0x80 {
                return false;
            }
            i += 4;
        } else {
            return false;
        }
    }
    true
}

/// Every well-formed UTF-8 string of at most N bytes, as (buffer, length).
pub fn any_str<S: Src, const N: usize>(s: &mut S) -> ([u8; N], usize) {
    let mut buf = [0u8; N];
    let len = s.below(N as u8 + 1) as usize;
    let mut i = 0;
    while i < N {
        let b = s.u8();
        if i < len {
            buf[i] = b;
        }
        i += 1;
    }
    (buf, len)
}
