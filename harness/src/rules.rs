//! Independent mailbox-style statement of the rules of chess (the oracle).
//! Plain loops with constant bounds, no tables, no bitboards.

use crate::spec::{attackers_ref, color_of, mk, piece_of, EMPTY};

pub const NONE: u8 = 64;

// move kinds (same numbering as owlchess::MoveKind)
pub const K_NULL: u8 = 0;
pub const K_SIMPLE: u8 = 1;
pub const K_OO: u8 = 2;
pub const K_OOO: u8 = 3;
pub const K_DOUBLE: u8 = 4;
pub const K_EP: u8 = 5;
pub const K_PN: u8 = 6;
pub const K_PB: u8 = 7;
pub const K_PR: u8 = 8;
pub const K_PQ: u8 = 9;

pub const P: u8 = 0;
pub const K: u8 = 1;
pub const N: u8 = 2;
pub const B: u8 = 3;
pub const R: u8 = 4;
pub const Q: u8 = 5;

#[derive(Clone, Copy, PartialEq, Eq)]
pub struct Pos {
    pub cells: [u8; 64],
    pub side: u8,     // 0 white, 1 black
    pub castling: u8, // bit (color<<1)|side, side: 0 queen, 1 king
    pub ep: u8,       // square of the pawn that just made a double step, or NONE
    pub mc: u16,
    pub mn: u16,
}

#[derive(Clone, Copy, PartialEq, Eq)]
pub struct M {
    pub kind: u8,
    pub cell: u8,
    pub src: u8,
    pub dst: u8,
}

#[inline]
fn file(s: u8) -> i8 { (s & 7) as i8 }
#[inline]
fn rank(s: u8) -> i8 { (s >> 3) as i8 } // 0 = 8th rank ... 7 = 1st rank
#[inline]
fn fwd(side: u8) -> i8 { if side == 0 { -1 } else { 1 } } // rank-index delta of a pawn step
#[inline]
fn home_rank(side: u8) -> i8 { if side == 0 { 7 } else { 0 } }
#[inline]
fn pawn_start(side: u8) -> i8 { if side == 0 { 6 } else { 1 } }
#[inline]
fn pawn_last(side: u8) -> i8 { if side == 0 { 0 } else { 7 } }
#[inline]
fn abs(x: i8) -> i8 { if x < 0 { -x } else { x } }

pub fn promo_piece(kind: u8) -> u8 {
    match kind { K_PN => N, K_PB => B, K_PR => R, K_PQ => Q, _ => 6 }
}

/// Geometric possibility of (kind, cell, src, dst) - the "well-formed" predicate.
pub fn wf_ref(m: M) -> bool {
    if m.kind == K_NULL {
        return m.cell == EMPTY && m.src == 0 && m.dst == 0;
    }
    if m.kind > K_PQ || m.cell == EMPTY || m.cell > 12 || m.src > 63 || m.dst > 63 || m.src == m.dst {
        return false;
    }
    let c = color_of(m.cell);
    let p = piece_of(m.cell);
    let df = file(m.dst) - file(m.src);
    let dr = rank(m.dst) - rank(m.src);
    match m.kind {
        K_SIMPLE => match p {
            P => dr == fwd(c) && abs(df) <= 1 && rank(m.src) != 0 && rank(m.src) != 7 && rank(m.dst) != 0 && rank(m.dst) != 7,
            K => abs(df) <= 1 && abs(dr) <= 1,
            N => (abs(df) == 1 && abs(dr) == 2) || (abs(df) == 2 && abs(dr) == 1),
            B => abs(df) == abs(dr),
            R => df == 0 || dr == 0,
            _ => abs(df) == abs(dr) || df == 0 || dr == 0,
        },
        K_OO => p == K && rank(m.src) == home_rank(c) && file(m.src) == 4 && rank(m.dst) == home_rank(c) && file(m.dst) == 6,
        K_OOO => p == K && rank(m.src) == home_rank(c) && file(m.src) == 4 && rank(m.dst) == home_rank(c) && file(m.dst) == 2,
        K_DOUBLE => p == P && df == 0 && rank(m.src) == pawn_start(c) && dr == 2 * fwd(c),
        K_EP => p == P && abs(df) == 1 && dr == fwd(c) && rank(m.src) == pawn_start(c) + 3 * fwd(c),
        _ => p == P && abs(df) <= 1 && dr == fwd(c) && rank(m.dst) == pawn_last(c),
    }
}

fn path_clear(cells: &[u8; 64], src: u8, dst: u8) -> bool {
    let df = file(dst) - file(src);
    let dr = rank(dst) - rank(src);
    let sf = if df > 0 { 1 } else if df < 0 { -1 } else { 0 };
    let sr = if dr > 0 { 1 } else if dr < 0 { -1 } else { 0 };
    let mut f = file(src) + sf;
    let mut r = rank(src) + sr;
    let mut k = 0;
    while k < 6 {
        if f == file(dst) && r == rank(dst) { return true; }
        if cells[(r as usize) * 8 + f as usize] != EMPTY { return false; }
        f += sf; r += sr; k += 1;
    }
    true
}

pub fn attacked_ref(cells: &[u8; 64], sq: u8, by: u8) -> bool { attackers_ref(cells, sq, by) != 0 }

/// Pseudo-legal ("semilegal") moves of chess; `m` need not be well-formed.
pub fn semilegal_ref(p: &Pos, m: M) -> bool {
    if !wf_ref(m) || m.kind == K_NULL { return false; }
    let us = p.side;
    if p.cells[m.src as usize] != m.cell || color_of(m.cell) != us { return false; }
    let target = p.cells[m.dst as usize];
    if color_of(target) == us { return false; }
    let piece = piece_of(m.cell);
    let df = file(m.dst) - file(m.src);
    match m.kind {
        K_SIMPLE => match piece {
            P => if df == 0 { target == EMPTY } else { target != EMPTY },
            K | N => true,
            _ => path_clear(&p.cells, m.src, m.dst),
        },
        K_PN | K_PB | K_PR | K_PQ => if df == 0 { target == EMPTY } else { target != EMPTY },
        K_DOUBLE => {
            let mid = (m.src as i8 + 8 * fwd(us)) as usize;
            target == EMPTY && p.cells[mid] == EMPTY
        }
        K_EP => {
            // the pawn to capture stands beside the source, on the destination file
            p.ep != NONE && rank(p.ep) == rank(m.src) && file(p.ep) == file(m.dst)
                && p.cells[p.ep as usize] == mk(1 - us, P) && target == EMPTY
        }
        K_OO | K_OOO => {
            let king_side = m.kind == K_OO;
            let bit = (us << 1) | (king_side as u8);
            if (p.castling >> bit) & 1 == 0 { return false; }
            let base = (home_rank(us) as u8) * 8;
            let rook_sq = base + if king_side { 7 } else { 0 };
            if p.cells[rook_sq as usize] != mk(us, R) { return false; }
            // squares between king and rook are empty
            let (lo, hi) = if king_side { (5u8, 6u8) } else { (1u8, 3u8) };
            let mut f = 1u8;
            while f <= 6 {
                if f >= lo && f <= hi && p.cells[(base + f) as usize] != EMPTY { return false; }
                f += 1;
            }
            // king is not in check and does not cross an attacked square
            let transit = base + if king_side { 5 } else { 3 };
            !attacked_ref(&p.cells, base + 4, 1 - us) && !attacked_ref(&p.cells, transit, 1 - us)
        }
        _ => false,
    }
}

pub fn find_king(cells: &[u8; 64], side: u8) -> u8 {
    let mut i = 0u8;
    let mut res = NONE;
    while i < 64 {
        if cells[i as usize] == mk(side, K) { res = i; }
        i += 1;
    }
    res
}

/// The position the rules prescribe after a semilegal (or null) move.
pub fn apply_ref(p: &Pos, m: M) -> Pos {
    let mut q = *p;
    let us = p.side;
    let target = p.cells[m.dst as usize];
    q.ep = NONE;
    let mut reset = false;
    if m.kind != K_NULL {
        let piece = piece_of(m.cell);
        reset = target != EMPTY || piece == P;
        q.cells[m.src as usize] = EMPTY;
        q.cells[m.dst as usize] = m.cell;
        match m.kind {
            K_PN | K_PB | K_PR | K_PQ => { q.cells[m.dst as usize] = mk(us, promo_piece(m.kind)); }
            K_DOUBLE => { q.ep = m.dst; }
            K_EP => { q.cells[p.ep as usize] = EMPTY; }
            K_OO => {
                let base = (home_rank(us) as usize) * 8;
                q.cells[base + 7] = EMPTY;
                q.cells[base + 5] = mk(us, R);
            }
            K_OOO => {
                let base = (home_rank(us) as usize) * 8;
                q.cells[base] = EMPTY;
                q.cells[base + 3] = mk(us, R);
            }
            _ => {}
        }
        // castling rights: a king or rook that moved, a rook captured on its home square
        let mut c = 0u8;
        while c < 2 {
            let base = (home_rank(c) as u8) * 8;
            let touched = |s: u8| m.src == s || m.dst == s;
            if touched(base + 4) { q.castling &= !(3 << (c << 1)); }
            if touched(base) { q.castling &= !(1 << (c << 1)); }
            if touched(base + 7) { q.castling &= !(2 << (c << 1)); }
            c += 1;
        }
    }
    q.mc = if reset { 0 } else { p.mc.saturating_add(1) };
    q.mn = if us == 1 { p.mn.saturating_add(1) } else { p.mn };
    q.side = 1 - us;
    q
}

/// Legal = semilegal and the mover's king is not attacked afterwards.
pub fn legal_ref(p: &Pos, m: M) -> bool {
    if !semilegal_ref(p, m) { return false; }
    let q = apply_ref(p, m);
    let k = find_king(&q.cells, p.side);
    k != NONE && !attacked_ref(&q.cells, k, 1 - p.side)
}

pub fn in_check_ref(p: &Pos) -> bool {
    let k = find_king(&p.cells, p.side);
    attacked_ref(&p.cells, k, 1 - p.side)
}
