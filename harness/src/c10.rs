//! C10: UCI move values and text.
use crate::dom::*;
use crate::rules::*;
use crate::src::Src;
use owlchess::moves::{uci, PromotePiece};
use owlchess::{Coord, Make, Move};
use std::str::FromStr;

pub fn promote_of(x: u8) -> Option<PromotePiece> {
    match x {
        0 => None,
        1 => Some(PromotePiece::Knight),
        2 => Some(PromotePiece::Bishop),
        3 => Some(PromotePiece::Rook),
        _ => Some(PromotePiece::Queen),
    }
}
fn promo_kind(x: u8) -> u8 {
    match x {
        1 => K_PN,
        2 => K_PB,
        3 => K_PR,
        _ => K_PQ,
    }
}

/// FULL x all semilegal moves: uci(m).into_move(b) == m (kind inference)
pub fn uci_struct_roundtrip<S: Src, const SIDE: u8, const KG: u8>(s: &mut S) {
    crate::stubs::draw_hash_pool(s);
    let b = match any_board(s, SIDE) {
        Some(b) => b,
        None => return,
    };
    let p = pos_of(b.raw());
    let m = any_m_g::<S, SIDE, KG>(s);
    vassume!(semilegal_ref(&p, m));
    let mv = mv_of(m);
    let u: uci::Move = mv.into();
    let back = u.into_move(&b);
    vnote!("fen={} move={:?} uci={:?} back={:?}", b.as_fen(), mv, u, back);
    vassert!("UCI value read back in the same position is the same move incl. its kind", back == Ok(mv));
    vcover!("a capture (groups that can capture)", KG == KG_CASTLING || KG == KG_EP || p.cells[m.dst as usize] != 0);
    vcover!("a promotion capture (pawn special group)", KG != KG_PSPECIAL || (m.kind >= K_PN && p.cells[m.dst as usize] != 0));
    vcover!("a move while in check (not castling)", KG == KG_CASTLING || in_check_ref(&p));
}

fn any_uci<S: Src>(s: &mut S) -> (uci::Move, bool, u8, u8, u8) {
    let is_null = s.bool();
    let src = s.below(64);
    let dst = s.below(64);
    let pr = s.below(5);
    let u = if is_null {
        uci::Move::Null
    } else {
        uci::Move::Move { src: Coord::from_index(src as usize), dst: Coord::from_index(dst as usize), promote: promote_of(pr) }
    };
    (u, is_null, src, dst, pr)
}

pub const UA_SEMI: u8 = 0; // semilegal reader <=> a semilegal move with these fields exists
pub const UA_LEGAL: u8 = 1; // legal reader <=> a legal move with these fields exists
pub const UA_MAKE: u8 = 2; // applying the value <=> the legal reader accepts (relational, no oracle); null never

/// FULL x every uci::Move value.  "exists" is decided with ONE symbolic kind k standing for all ten
/// (soundness from the move the reader returns, completeness from the universally quantified k)
/// instead of a ten-way loop.  Split in three parts (the whole exceeded 24 GB).
pub fn uci_accept_exact<S: Src, const SIDE: u8, const PART: u8>(s: &mut S) {
    crate::stubs::draw_hash_pool(s);
    let b = match any_board(s, SIDE) {
        Some(b) => b,
        None => return,
    };
    let p = pos_of(b.raw());
    let (u, is_null, src, dst, pr) = any_uci(s);
    let read = u.into_move(&b);
    if PART == UA_MAKE {
        let legal = match read {
            Ok(mv) => mv.validate(&b).is_ok(),
            Err(_) => false,
        };
        let made = u.make(&b);
        vnote!("fen={} uci={:?} read={:?} legal reader={} applied={}", b.as_fen(), u, read, legal, made.is_ok());
        vassert!("a UCI value is applied exactly when the legal reader accepts it", made.is_ok() == legal);
        vassert!("the null move is never accepted as a move to play", !(is_null && made.is_ok()));
        vcover!("applied (make part)", made.is_ok());
        vcover!("null value (make part)", is_null);
        return;
    }
    // a symbolic candidate with that source, destination and promotion: any non-null kind
    let k = 1 + s.below(9);
    let cand = M { kind: k, cell: p.cells[src as usize], src, dst };
    let promo_ok = if pr == 0 { k < K_PN } else { k == promo_kind(pr) };
    let cand_semi = !is_null && promo_ok && semilegal_ref(&p, cand);
    if PART == UA_SEMI {
        let semi = match read {
            Ok(mv) => mv.semi_validate(&b).is_ok(),
            Err(_) => false,
        };
        vnote!("fen={} uci={:?} read={:?} semilegal reader={} candidate={:?} semilegal by rules={}", b.as_fen(), u, read, semi, mv_of(cand), cand_semi);
        vassert!("semilegal reader succeeds whenever such a semilegal move exists, and returns it", !cand_semi || (semi && read == Ok(mv_of(cand))));
        if let (true, Ok(mv)) = (semi, read) {
            let m = m_of(mv);
            vassert!("semilegal reader accepts only a semilegal move with that source, destination and promotion",
                !is_null && semilegal_ref(&p, m) && m.src == src && m.dst == dst && (if pr == 0 { m.kind < K_PN } else { m.kind == promo_kind(pr) }));
        }
        vcover!("accepted promotion (semi part)", semi && pr != 0);
        vcover!("promotion letter on a non-promoting move (semi part)", !semi && pr != 0 && p.cells[src as usize] != 0);
        vcover!("null value (semi part)", is_null);
    } else {
        let legal = match read {
            Ok(mv) => mv.validate(&b).is_ok(),
            Err(_) => false,
        };
        let cand_legal = cand_semi && legal_ref(&p, cand);
        vnote!("fen={} uci={:?} read={:?} legal reader={} candidate={:?} legal by rules={}", b.as_fen(), u, read, legal, mv_of(cand), cand_legal);
        vassert!("legal reader succeeds whenever such a legal move exists", !cand_legal || legal);
        if let (true, Ok(mv)) = (legal, read) {
            vassert!("legal reader accepts only a legal move", legal_ref(&p, m_of(mv)));
        }
        vcover!("legal promotion (legal part)", legal && pr != 0);
        vcover!("semilegal candidate refused as illegal (legal part)", cand_semi && !legal);
    }
}

/// position-free: every UTF-8 string of <= 6 bytes: accepted <=> [a-h][1-8][a-h][1-8][nbrq]? | 0000
pub fn uci_parse_exact<S: Src>(s: &mut S) {
    let (buf, len) = any_str::<S, 6>(s);
    vassume!(utf8_ok(&buf, len));
    let st = unsafe { core::str::from_utf8_unchecked(&buf[..len]) };
    let r = uci::Move::from_str(st);
    let is_file = |b: u8| b >= b'a' && b <= b'h';
    let is_rank = |b: u8| b >= b'1' && b <= b'8';
    let is0000 = len == 4 && buf[0] == b'0' && buf[1] == b'0' && buf[2] == b'0' && buf[3] == b'0';
    let shape = (len == 4 || len == 5) && is_file(buf[0]) && is_rank(buf[1]) && is_file(buf[2]) && is_rank(buf[3])
        && (len == 4 || buf[4] == b'n' || buf[4] == b'b' || buf[4] == b'r' || buf[4] == b'q');
    vassert!("accepted exactly the strings of the UCI move grammar", r.is_ok() == (is0000 || shape));
    if let Ok(u) = r {
        match u {
            uci::Move::Null => vassert!("only 0000 is the null move", is0000),
            uci::Move::Move { src, dst, promote } => {
                let sq = |f: u8, r: u8| ((b'8' - r) as usize) * 8 + (f - b'a') as usize;
                vassert!("source square read correctly", shape && src.index() == sq(buf[0], buf[1]));
                vassert!("destination square read correctly", shape && dst.index() == sq(buf[2], buf[3]));
                let want = if len == 4 { None } else { match buf[4] { b'n' => Some(PromotePiece::Knight), b'b' => Some(PromotePiece::Bishop), b'r' => Some(PromotePiece::Rook), _ => Some(PromotePiece::Queen) } };
                vassert!("promotion letter read correctly", promote == want);
            }
        }
    }
    vcover!("accepted with promotion", r.is_ok() && len == 5);
    vcover!("multi-byte input rejected", r.is_err() && len >= 4 && buf[1] >= 0x80);
    vcover!("null move text", is0000);
}

/// position-free, through core::fmt: every uci::Move value formats to text that parses back
pub fn uci_text_roundtrip<S: Src>(s: &mut S) {
    let is_null = s.bool();
    let src = s.below(64);
    let dst = s.below(64);
    let pr = s.below(5);
    let u = if is_null {
        uci::Move::Null
    } else {
        uci::Move::Move { src: Coord::from_index(src as usize), dst: Coord::from_index(dst as usize), promote: promote_of(pr) }
    };
    let txt = u.to_string();
    vassert!("formatting a UCI value yields text that parses back to it", uci::Move::from_str(&txt) == Ok(u));
    vassert!("UCI text has 4 or 5 bytes", txt.len() == 4 || txt.len() == 5);
    vcover!("promotion", !is_null && pr != 0);
}

/// the string-level readers compose the parser with the value-level conversion
pub fn uci_string_readers<S: Src, const SIDE: u8>(s: &mut S) {
    crate::stubs::draw_hash_pool(s);
    let b = match any_board(s, SIDE) {
        Some(b) => b,
        None => return,
    };
    let (buf, len) = any_str::<S, 5>(s);
    vassume!(utf8_ok(&buf, len));
    let st = unsafe { core::str::from_utf8_unchecked(&buf[..len]) };
    let parsed = uci::Move::from_str(st);
    let semi = Move::from_uci_semilegal(st, &b);
    let legal = Move::from_uci_legal(st, &b);
    match parsed {
        Err(_) => {
            vassert!("unparsable text is refused by the semilegal reader", semi.is_err());
            vassert!("unparsable text is refused by the legal reader", legal.is_err());
        }
        Ok(u) => {
            let mv = u.into_move(&b);
            let want_semi = match mv { Ok(m) => m.semi_validate(&b).is_ok(), Err(_) => false };
            let want_legal = match mv { Ok(m) => m.validate(&b).is_ok(), Err(_) => false };
            vassert!("semilegal string reader = parser + value conversion + semilegal check", semi.is_ok() == want_semi && (semi.is_err() || semi.clone().ok() == mv.clone().ok()));
            vassert!("legal string reader = parser + value conversion + legal check", legal.is_ok() == want_legal);
            let made = owlchess::moves::make::Uci(st).make(&b);
            vassert!("Uci(text) is applied exactly when the legal reader accepts it", made.is_ok() == want_legal);
            vassert!("the null move text is never accepted as a move to play", !(u == uci::Move::Null) || (semi.is_err() && legal.is_err() && made.is_err()));
        }
    }
    vcover!("accepted text", legal.is_ok());
    vcover!("null text", parsed == Ok(uci::Move::Null));
}
