//! C15: attack and between tables equal their geometric definitions.
use crate::spec::*;
use crate::src::Src;
use owlchess::verif;
use owlchess::{Bitboard, Color, Coord};

fn on(f: i8, r: i8) -> bool {
    f >= 0 && f < 8 && r >= 0 && r < 8
}
fn bit(f: i8, r: i8) -> u64 {
    1u64 << ((r as u32) * 8 + f as u32)
}

const KNIGHT_D: [(i8, i8); 8] = [(-2, -1), (-2, 1), (-1, -2), (-1, 2), (2, -1), (2, 1), (1, -2), (1, 2)];
const KING_D: [(i8, i8); 8] = [(-1, -1), (-1, 0), (-1, 1), (0, -1), (0, 1), (1, -1), (1, 0), (1, 1)];

pub fn leaper_ref(sq: u8, d: &[(i8, i8); 8]) -> u64 {
    let f0 = (sq & 7) as i8;
    let r0 = (sq >> 3) as i8;
    let mut res = 0u64;
    let mut i = 0;
    while i < 8 {
        let (df, dr) = d[i];
        if on(f0 + df, r0 + dr) {
            res |= bit(f0 + df, r0 + dr);
        }
        i += 1;
    }
    res
}
/// squares a pawn of colour `c` (0 white) standing on `sq` attacks
pub fn pawn_ref(c: u8, sq: u8) -> u64 {
    let f0 = (sq & 7) as i8;
    let r0 = (sq >> 3) as i8;
    let r = if c == 0 { r0 - 1 } else { r0 + 1 };
    let mut res = 0u64;
    if on(f0 - 1, r) {
        res |= bit(f0 - 1, r);
    }
    if on(f0 + 1, r) {
        res |= bit(f0 + 1, r);
    }
    res
}

pub fn leapers_exact<S: Src>(s: &mut S) {
    let sq = s.below(64);
    let c = Coord::from_index(sq as usize);
    vassert!("king attack set = geometric definition", verif::king(c).as_raw() == leaper_ref(sq, &KING_D));
    vassert!("knight attack set = geometric definition", verif::knight(c).as_raw() == leaper_ref(sq, &KNIGHT_D));
    vassert!("white pawn attack set = geometric definition", verif::pawn(Color::White, c).as_raw() == pawn_ref(0, sq));
    vassert!("black pawn attack set = geometric definition", verif::pawn(Color::Black, c).as_raw() == pawn_ref(1, sq));
    vcover!("corner square", sq == 0);
    vcover!("edge square", sq == 31);
    vcover!("centre square", sq == 27);
}

/// aligned on a diagonal (a != b)
fn diag_aligned(a: u8, b: u8) -> bool {
    let df = (a & 7) as i8 - (b & 7) as i8;
    let dr = (a >> 3) as i8 - (b >> 3) as i8;
    a != b && (df == dr || df == -dr)
}
fn line_aligned(a: u8, b: u8) -> bool {
    a != b && ((a & 7) == (b & 7) || (a >> 3) == (b >> 3))
}
/// squares strictly between two aligned squares
fn between_ref(a: u8, b: u8) -> u64 {
    let df = (b & 7) as i8 - (a & 7) as i8;
    let dr = (b >> 3) as i8 - (a >> 3) as i8;
    let sf = if df > 0 { 1 } else if df < 0 { -1 } else { 0 };
    let sr = if dr > 0 { 1 } else if dr < 0 { -1 } else { 0 };
    let mut f = (a & 7) as i8 + sf;
    let mut r = (a >> 3) as i8 + sr;
    let mut res = 0u64;
    let mut k = 0;
    while k < 6 {
        if f == (b & 7) as i8 && r == (b >> 3) as i8 {
            break;
        }
        res |= bit(f, r);
        f += sf;
        r += sr;
        k += 1;
    }
    res
}

pub fn between_exact<S: Src>(s: &mut S) {
    let a = s.below(64);
    let b = s.below(64);
    let ca = Coord::from_index(a as usize);
    let cb = Coord::from_index(b as usize);
    vassert!("diagonal alignment predicate exact", verif::is_bishop_valid(ca, cb) == diag_aligned(a, b));
    vassert!("line alignment predicate exact", verif::is_rook_valid(ca, cb) == line_aligned(a, b));
    if diag_aligned(a, b) {
        vassert!("strictly-between set exact (diagonal)", verif::bishop_strict(ca, cb).as_raw() == between_ref(a, b));
    }
    if line_aligned(a, b) {
        vassert!("strictly-between set exact (line)", verif::rook_strict(ca, cb).as_raw() == between_ref(a, b));
    }
    vcover!("diagonal pair at distance 7", diag_aligned(a, b) && between_ref(a, b).count_ones() == 6);
    vcover!("line pair adjacent", line_aligned(a, b) && between_ref(a, b) == 0);
    vcover!("unaligned pair", !diag_aligned(a, b) && !line_aligned(a, b) && a != b);
}

pub fn bishop_exact<S: Src>(s: &mut S) {
    let sq = s.below(64);
    let occ = s.u64();
    let got = verif::bishop(Coord::from_index(sq as usize), Bitboard::from_raw(occ)).as_raw();
    vassert!("bishop attack set = ray walk", got == bishop_ref(sq, occ));
    vcover!("blocked ray", got.count_ones() < bishop_ref(sq, 0).count_ones());
    vcover!("empty board", occ == 0);
}

pub fn rook_exact<S: Src>(s: &mut S) {
    let sq = s.below(64);
    let occ = s.u64();
    let got = verif::rook(Coord::from_index(sq as usize), Bitboard::from_raw(occ)).as_raw();
    vassert!("rook attack set = ray walk", got == rook_ref(sq, occ));
    vcover!("blocked ray", got.count_ones() < rook_ref(sq, 0).count_ones());
}

/// one concrete square (quick tier slices of the rook table)
pub fn rook_exact_sq<S: Src, const SQ: u8>(s: &mut S) {
    let occ = s.u64();
    let got = verif::rook(Coord::from_index(SQ as usize), Bitboard::from_raw(occ)).as_raw();
    vassert!("rook attack set = ray walk", got == rook_ref(SQ, occ));
    vcover!("blocked ray", got.count_ones() < rook_ref(SQ, 0).count_ones());
}
