//! Kani stubs (each one is part of the claim; see DESIGN.md section 3.3).
//! None of these exist natively: replay always runs the real functions.

use crate::spec::{bishop_ref, rook_ref};
use owlchess::{Bitboard, Board, Coord, RawBoard};

/// S1: ray-walk definitions in place of the magic look-ups (proved equal by C15).
pub fn rook_stub(c: Coord, occ: Bitboard) -> Bitboard {
    Bitboard::from_raw(rook_ref(c.index() as u8, occ.as_raw()))
}
pub fn bishop_stub(c: Coord, occ: Bitboard) -> Bitboard {
    Bitboard::from_raw(bishop_ref(c.index() as u8, occ.as_raw()))
}

/// S2: the from-scratch hash becomes an arbitrary value. The values are drawn by the harness
/// *before* the code under test runs (so the order of concrete-playback values is the order of
/// `Src` calls also natively, where this stub does not exist).
pub static mut HASH_POOL: [u64; 4] = [0; 4];
pub static mut HASH_NEXT: usize = 0;
/// the raw board of the latest call (lets a harness show *which* raw board was hashed)
pub static mut HASH_LAST_ARG: Option<RawBoard> = None;
pub fn hash_stub(r: &RawBoard) -> u64 {
    unsafe {
        HASH_LAST_ARG = Some(*r);
        let v = HASH_POOL[HASH_NEXT & 3];
        HASH_NEXT += 1;
        v
    }
}
/// draw the pool (a no-op for the verdict natively: the real hash is used there)
pub fn draw_hash_pool<S: crate::src::Src>(s: &mut S) {
    let a = s.u64();
    let b = s.u64();
    let c = s.u64();
    let d = s.u64();
    unsafe {
        HASH_POOL = [a, b, c, d];
        HASH_NEXT = 0;
    }
}

/// S3: `movegen::has_legal_moves` answers a harness-owned symbolic bool.
pub static mut HLM: bool = false;
pub fn hlm_stub(_b: &Board) -> bool {
    unsafe { HLM }
}

/// S4: `core::str::from_utf8` = the reference automaton (its Err payload is never inspected:
/// both call sites `unwrap()`).
pub fn from_utf8_model(v: &[u8]) -> Result<&str, core::str::Utf8Error> {
    if crate::dom::utf8_ok(v, v.len()) {
        Ok(unsafe { core::str::from_utf8_unchecked(v) })
    } else {
        Err(unsafe { core::mem::zeroed() })
    }
}

/// S7: `str::is_ascii` = byte loop (std uses a word-at-a-time fast path with `align_offset`, which is
/// what makes strings of symbolic length expensive; same situation as S4)
pub fn is_ascii_model(s: &str) -> bool {
    let b = s.as_bytes();
    let mut i = 0;
    let mut ok = true;
    while i < b.len() {
        if b[i] >= 0x80 {
            ok = false;
        }
        i += 1;
    }
    ok
}
