//! C14: outcome filter table and the chain's outcome precedence (position-free).
use crate::src::Src;
use owlchess::chain::{BaseMoveChain, Repeat};
use owlchess::types::OutcomeFilter;
use owlchess::{Board, Color, DrawReason, Outcome, WinReason};

pub static mut COUNT: usize = 0;
pub static mut BOARD_OUTCOME: Option<Outcome> = None;

/// repetition table whose `count` is a harness-owned symbolic number (a type parameter, not a stub)
#[derive(Default)]
pub struct CountRepeat;
impl Repeat for CountRepeat {
    fn push(&mut self, _b: &Board) {}
    fn pop(&mut self, _b: &Board) {}
    fn count(&self, _b: &Board) -> usize {
        unsafe { COUNT }
    }
}
/// S5
pub fn calc_outcome_stub(_b: &Board) -> Option<Outcome> {
    unsafe { BOARD_OUTCOME }
}

fn filter_of(i: u8) -> OutcomeFilter {
    match i {
        0 => OutcomeFilter::Force,
        1 => OutcomeFilter::Strict,
        _ => OutcomeFilter::Relaxed,
    }
}

/// every outcome value a chain can hold (reasons the library can produce + the others)
fn outcome_of(i: u8) -> Outcome {
    match i {
        0 => Outcome::Win { side: Color::White, reason: WinReason::Checkmate },
        1 => Outcome::Win { side: Color::Black, reason: WinReason::Checkmate },
        2 => Outcome::Draw(DrawReason::Stalemate),
        3 => Outcome::Draw(DrawReason::InsufficientMaterial),
        4 => Outcome::Draw(DrawReason::Moves75),
        5 => Outcome::Draw(DrawReason::Repeat5),
        6 => Outcome::Draw(DrawReason::Moves50),
        _ => Outcome::Draw(DrawReason::Repeat3),
    }
}
/// 0 forced, 1 mandatory, 2 claimable
fn class_of(i: u8) -> u8 {
    match i {
        0 | 1 | 2 => 0,
        3 | 4 | 5 => 1,
        _ => 2,
    }
}

pub fn outcome_filter_table<S: Src>(s: &mut S) {
    let oi = s.below(8);
    let fi = s.below(3);
    let o = outcome_of(oi);
    let want = match (class_of(oi), fi) {
        (0, _) => true,
        (1, 1) | (1, 2) => true,
        (2, 2) => true,
        _ => false,
    };
    vassert!("forced outcomes pass every filter, mandatory draws strict+relaxed, claimable draws relaxed only", o.passes(filter_of(fi)) == want);
    vassert!("is_force = checkmate or stalemate", o.is_force() == (class_of(oi) == 0));
    vassert!("winner", o.winner() == match oi { 0 => Some(Color::White), 1 => Some(Color::Black), _ => None });
    vcover!("claimable under strict", class_of(oi) == 2 && fi == 1);
}

/// all board outcomes x every usize count x 3 filters (S5): precedence + automatic outcome setting
pub fn chain_outcome_precedence<S: Src>(s: &mut S) {
    let bi = s.below(7);
    // what a board can report: none, the three forced ones, insufficient material, 75, 50
    let bo = match bi {
        0 => None,
        1 => Some(outcome_of(0)),
        2 => Some(outcome_of(1)),
        3 => Some(outcome_of(2)),
        4 => Some(outcome_of(3)),
        5 => Some(outcome_of(4)),
        _ => Some(outcome_of(6)),
    };
    let n = s.usize();
    #[cfg(kani)]
    let mut ch: BaseMoveChain<CountRepeat> = {
        unsafe {
            BOARD_OUTCOME = bo;
            COUNT = n;
        }
        BaseMoveChain::new(Board::initial())
    };
    #[cfg(not(kani))]
    let mut ch: BaseMoveChain<CountRepeat> = {
        // natively S5 does not exist: a concrete position whose REAL board outcome is `bo` stands in
        unsafe { COUNT = n };
        let fen = match bi {
            0 => "rnbqkbnr/pppppppp/8/8/8/8/PPPPPPPP/RNBQKBNR w KQkq - 0 1",
            1 => "R5k1/5ppp/8/8/8/8/8/4K3 b - - 0 1",
            2 => "4k3/8/8/8/8/8/5PPP/r5K1 w - - 0 1",
            3 => "7k/5Q2/6K1/8/8/8/8/8 b - - 0 1",
            4 => "4k3/8/8/8/8/8/8/4K3 w - - 0 1",
            5 => "rnbqkbnr/pppppppp/8/8/8/8/PPPPPPPP/RNBQKBNR w KQkq - 150 90",
            _ => "rnbqkbnr/pppppppp/8/8/8/8/PPPPPPPP/RNBQKBNR w KQkq - 100 60",
        };
        let b = Board::from_fen(fen).unwrap();
        if b.calc_outcome() != bo {
            crate::src::native::fail("native stand-in position does not have the intended board outcome");
        }
        BaseMoveChain::new(b)
    };
    let got = ch.calc_outcome();
    let forced_or_mandatory = bi >= 1 && bi <= 5;
    let want = if forced_or_mandatory {
        bo
    } else if n >= 5 {
        Some(Outcome::Draw(DrawReason::Repeat5))
    } else if n >= 3 {
        Some(Outcome::Draw(DrawReason::Repeat3))
    } else {
        bo
    };
    vnote!("board outcome {:?}, count {}: chain says {:?}, precedence table says {:?}", bo, n, got, want);
    vassert!("chain outcome = forced, else mandatory (insufficient / 75 / 5 occurrences), else claimable (3 occurrences / 50), else none", got == want);
    let fi = s.below(3);
    let stored = ch.set_auto_outcome(filter_of(fi));
    let passes = match want {
        None => false,
        Some(o) => o.passes(filter_of(fi)),
    };
    vassert!("automatic outcome is stored exactly when it passes the filter", stored == if passes { want } else { None });
    vassert!("the stored outcome is what was returned", *ch.outcome() == stored);
    vcover!("five occurrences beat the 50-move claim", bi == 6 && n >= 5);
    vcover!("75 moves beat three occurrences", bi == 5 && n >= 3);
    vcover!("three occurrences, nothing else", bi == 0 && n == 3);
    vcover!("claimable refused by the strict filter", fi == 1 && !passes && want.is_some());
    core::mem::forget(ch);
}
