//! Input sources and the assume / assert / cover vocabulary shared by Kani and native replay.

pub trait Src {
    fn u8(&mut self) -> u8;
    fn u16(&mut self) -> u16;
    fn u64(&mut self) -> u64;
    fn bool(&mut self) -> bool;
    fn usize(&mut self) -> usize {
        self.u64() as usize
    }
    /// a value in 0..n
    fn below(&mut self, n: u8) -> u8;
}

#[cfg(kani)]
pub struct KSrc;

#[cfg(kani)]
impl Src for KSrc {
    #[inline]
    fn u8(&mut self) -> u8 {
        kani::any()
    }
    #[inline]
    fn u16(&mut self) -> u16 {
        kani::any()
    }
    #[inline]
    fn u64(&mut self) -> u64 {
        kani::any()
    }
    #[inline]
    fn bool(&mut self) -> bool {
        kani::any()
    }
    #[inline]
    fn below(&mut self, n: u8) -> u8 {
        let v: u8 = kani::any();
        kani::assume(v < n);
        v
    }
}

/// Native source: the byte vectors printed by Kani's concrete playback, in call order.
pub struct BSrc {
    pub vals: Vec<Vec<u8>>,
    pub pos: usize,
    /// set when the recorded values run out or an `assume` is not met natively
    pub exhausted: bool,
}

impl BSrc {
    pub fn new(vals: Vec<Vec<u8>>) -> Self {
        BSrc { vals, pos: 0, exhausted: false }
    }
    fn next(&mut self, n: usize) -> u64 {
        if self.pos >= self.vals.len() {
            self.exhausted = true;
            return 0;
        }
        let v = &self.vals[self.pos];
        self.pos += 1;
        let mut r = 0u64;
        let mut i = 0;
        while i < n && i < v.len() {
            r |= (v[i] as u64) << (8 * i);
            i += 1;
        }
        r
    }
}

impl Src for BSrc {
    fn u8(&mut self) -> u8 {
        self.next(1) as u8
    }
    fn u16(&mut self) -> u16 {
        self.next(2) as u16
    }
    fn u64(&mut self) -> u64 {
        self.next(8)
    }
    fn bool(&mut self) -> bool {
        self.next(1) != 0
    }
    fn below(&mut self, n: u8) -> u8 {
        let v = self.next(1) as u8;
        if v >= n {
            native::note_vacuous();
        }
        v % n.max(1)
    }
}

/// Native bookkeeping of what a replayed body did.
pub mod native {
    use std::cell::RefCell;
    thread_local! {
        pub static FAILED: RefCell<Vec<String>> = RefCell::new(Vec::new());
        pub static VACUOUS: RefCell<bool> = RefCell::new(false);
        pub static NOTES: RefCell<Vec<String>> = RefCell::new(Vec::new());
    }
    pub fn fail(label: &str) {
        FAILED.with(|f| f.borrow_mut().push(label.to_string()));
    }
    pub fn note_vacuous() {
        VACUOUS.with(|v| *v.borrow_mut() = true);
    }
    pub fn note(s: String) {
        NOTES.with(|n| n.borrow_mut().push(s));
    }
    pub fn reset() {
        FAILED.with(|f| f.borrow_mut().clear());
        VACUOUS.with(|v| *v.borrow_mut() = false);
        NOTES.with(|n| n.borrow_mut().clear());
    }
}

/// `vassume!(cond)`: Kani `assume`; natively an unmet assumption ends the body (vacuous).
#[macro_export]
macro_rules! vassume {
    ($c:expr) => {{
        #[cfg(kani)]
        kani::assume($c);
        #[cfg(not(kani))]
        if !($c) {
            $crate::src::native::note_vacuous();
            return;
        }
    }};
}

/// `vassert!("label", cond)`: the label is the check's identity in Kani's report and in replay.
#[macro_export]
macro_rules! vassert {
    ($l:expr, $c:expr) => {{
        #[cfg(kani)]
        assert!($c, $l);
        #[cfg(not(kani))]
        if !($c) {
            $crate::src::native::fail($l);
        }
    }};
}

/// `vcover!("label", cond)`: reachability / non-vacuity witness (Kani only).
#[macro_export]
macro_rules! vcover {
    ($l:expr, $c:expr) => {{
        #[cfg(kani)]
        kani::cover!($c, $l);
    }};
}

/// human-readable note attached to a native replay
#[macro_export]
macro_rules! vnote {
    ($($a:tt)*) => {{
        #[cfg(not(kani))]
        $crate::src::native::note(format!($($a)*));
    }};
}
