//! C07: the outcome of a position is classified exactly.
use crate::dom::*;
use crate::rules::*;
use crate::spec::*;
use crate::src::Src;
use owlchess::{Color, DrawReason, Outcome, WinReason};

pub fn insufficient_ref(cells: &[u8; 64]) -> bool {
    let mut knights = 0;
    let mut others = 0;
    let mut light_b = 0;
    let mut dark_b = 0;
    let mut i = 0;
    while i < 64 {
        let c = cells[i];
        if c != 0 {
            let p = piece_of(c);
            if p == K {
            } else if p == N {
                knights += 1;
            } else if p == B {
                if ((i & 7) + (i >> 3)) % 2 == 0 {
                    light_b += 1;
                } else {
                    dark_b += 1;
                }
            } else {
                others += 1;
            }
        }
        i += 1;
    }
    if others > 0 {
        return false;
    }
    let bishops = light_b + dark_b;
    (knights == 0 && bishops == 0) || (knights == 1 && bishops == 0) || (knights == 0 && (light_b == 0 || dark_b == 0))
}

pub fn outcome_ref(p: &Pos, has_move: bool) -> Option<Outcome> {
    let check = in_check_ref(p);
    if !has_move {
        if check {
            Some(Outcome::Win { side: if p.side == 0 { Color::Black } else { Color::White }, reason: WinReason::Checkmate })
        } else {
            Some(Outcome::Draw(DrawReason::Stalemate))
        }
    } else if insufficient_ref(&p.cells) {
        Some(Outcome::Draw(DrawReason::InsufficientMaterial))
    } else if p.mc >= 150 {
        Some(Outcome::Draw(DrawReason::Moves75))
    } else if p.mc >= 100 {
        Some(Outcome::Draw(DrawReason::Moves50))
    } else {
        None
    }
}

/// FULL, S3: classification given the legal-move probe's answer `h`
/// HC: 0 = the probe answers 'no legal move', 1 = 'has a legal move', 2 = symbolic (both)
pub fn outcome_classification<S: Src, const SIDE: u8, const HC: u8>(s: &mut S) {
    crate::stubs::draw_hash_pool(s);
    let b = match any_board(s, SIDE) {
        Some(b) => b,
        None => return,
    };
    let p = pos_of(b.raw());
    #[cfg(kani)]
    let h = {
        let h = if HC == 2 { s.bool() } else { HC == 1 };
        unsafe { crate::stubs::HLM = h };
        h
    };
    #[cfg(not(kani))]
    let h = {
        if HC == 2 {
            let _ = s.bool();
        }
        b.has_legal_moves()
    };
    let got = b.calc_outcome();
    let want = outcome_ref(&p, h);
    vnote!("fen={} has_legal_moves={} got={:?} want={:?}", b.as_fen(), h, got, want);
    vassert!("calc_outcome = forced > mandatory > claimable classification", got == want);
    let simple = b.calc_draw_simple();
    let want_simple = if insufficient_ref(&p.cells) {
        Some(DrawReason::InsufficientMaterial)
    } else if p.mc >= 150 {
        Some(DrawReason::Moves75)
    } else if p.mc >= 100 {
        Some(DrawReason::Moves50)
    } else {
        None
    };
    vassert!("calc_draw_simple = insufficient material > 75 moves > 50 moves", simple == want_simple);
    vcover!("checkmate (probe says no move)", HC == 1 || (!h && in_check_ref(&p)));
    vcover!("stalemate (probe says no move)", HC == 1 || (!h && !in_check_ref(&p)));
    vcover!("insufficient: bishops of one colour on both sides (probe says move)", HC == 0 || (h && insufficient_ref(&p.cells) && occ_of(&p.cells, |c| piece_of(c) == B).count_ones() >= 3));
    vcover!("two knights is sufficient (probe says move)", HC == 0 || (h && !insufficient_ref(&p.cells) && occ_of(&p.cells, |c| c != 0).count_ones() == 4 && occ_of(&p.cells, |c| piece_of(c) == N).count_ones() == 2));
    vcover!("clock 100 claimable (probe says move)", HC == 0 || (got == Some(Outcome::Draw(DrawReason::Moves50)) && p.mc == 100));
    vcover!("clock 150 mandatory (probe says move)", HC == 0 || (got == Some(Outcome::Draw(DrawReason::Moves75)) && p.mc == 150));
    vcover!("clock 99 nothing (probe says move)", HC == 0 || (got.is_none() && p.mc == 99));
    vcover!("forced beats mandatory (probe says no move)", HC == 1 || (!h && p.mc >= 150));
}

/// rule-level lemma behind skipping castling in the probe: a legal castling implies a legal
/// king step to the transit square (oracle + the real validator; FULL, loop-free)
pub fn castling_never_only_move<S: Src, const SIDE: u8>(s: &mut S) {
    crate::stubs::draw_hash_pool(s);
    let b = match any_board(s, SIDE) {
        Some(b) => b,
        None => return,
    };
    let p = pos_of(b.raw());
    let ks = s.bool();
    let base = if p.side == 0 { 56u8 } else { 0u8 };
    let king = mk(p.side, K);
    let castle = M { kind: if ks { K_OO } else { K_OOO }, cell: king, src: base + 4, dst: base + if ks { 6 } else { 2 } };
    vassume!(legal_ref(&p, castle));
    let step = M { kind: K_SIMPLE, cell: king, src: base + 4, dst: base + if ks { 5 } else { 3 } };
    vassert!("legal castling implies the king step to the transit square is legal (rules)", legal_ref(&p, step));
    vassert!("legal castling implies the king step to the transit square is legal (real validator)", mv_of(step).validate(&b).is_ok());
    vcover!("castling legal", true);
}

/// `has_legal_moves` under the abstract legality predicate (S6), GEN(K) on FULL:
/// the probe asks A only about non-castling pseudo-legal moves, answers false only if A rejected
/// every one of them, and answers true exactly by stopping on a move A accepted.
/// Natively (replay) the real filter runs and the answer is compared with the rules directly.
pub fn has_legal_moves_wiring<S: Src, const SIDE: u8, const KP: u32, const KN: u32>(s: &mut S) {
    crate::stubs::draw_hash_pool(s);
    let b = match any_board(s, SIDE) {
        Some(b) => b,
        None => return,
    };
    vassume!(gen_bound2(&b, KP, KN));
    let p = pos_of(b.raw());
    #[cfg(kani)]
    {
        let t = any_m(s);
        let ans = s.bool();
        crate::s6::reset(mv_of(t), ans);
        let h = b.has_legal_moves();
        let t_candidate = semilegal_ref(&p, t) && t.kind != K_OO && t.kind != K_OOO;
        let (asked, last_true, first) = unsafe { (crate::s6::T_ASKED, crate::s6::LAST_TRUE, owlchess::verif::FIRST_LEGAL) };
        vassert!("the filter is asked only about pseudo-legal non-castling moves", asked == 0 || t_candidate);
        vassert!("the filter is asked about a move at most once", asked <= 1);
        if !h {
            vassert!("'no legal move' only if every pseudo-legal non-castling move was offered to the filter and rejected", !(t_candidate && ans) && (!t_candidate || asked == 1));
            vassert!("'no legal move' only if the filter accepted nothing", last_true.is_none());
        } else {
            vassert!("'has a legal move' exactly by stopping on a move the filter accepted", first.is_some() && first == last_true);
        }
        vcover!("probe says no move although candidates exist", !h && t_candidate);
        vcover!("probe stops on the target", h && first == Some(mv_of(t)));
        vcover!("target is an en passant candidate", t_candidate && t.kind == K_EP);
        vcover!("target is a promotion candidate", t_candidate && t.kind == K_PQ);
    }
    #[cfg(not(kani))]
    {
        // exhaustive native comparison on the concrete position of the counterexample
        let h = b.has_legal_moves();
        let mut any_legal = false;
        let mut witness = M { kind: 0, cell: 0, src: 0, dst: 0 };
        for kind in 1..10u8 {
            for cell in 1..13u8 {
                for src in 0..64u8 {
                    for dst in 0..64u8 {
                        let m = M { kind, cell, src, dst };
                        if p.cells[src as usize] == cell && legal_ref(&p, m) {
                            any_legal = true;
                            witness = m;
                        }
                    }
                }
            }
        }
        vnote!("fen={} has_legal_moves={} rules say {} (e.g. {:?})", b.as_fen(), h, any_legal, mv_of(witness));
        vassert!("has_legal_moves = (some legal move exists)", h == any_legal);
        vassert!("has_legal_moves agrees with the legal generator", h == !owlchess::movegen::legal::gen_all(&b).is_empty());
    }
}

/// realizable companion of `outcome_classification`: positions in which the side to move has only
/// its king (opponent arbitrary).  There "has a legal move" is decided by the rules themselves
/// (8 king steps), so the probe's answer is not a free bit and every counterexample is a real,
/// natively reproducible position (stalemate / mate against a lone king, incl. insufficient material).
pub fn outcome_lone_king<S: Src, const SIDE: u8>(s: &mut S) {
    crate::stubs::draw_hash_pool(s);
    let b = match any_board(s, SIDE) {
        Some(b) => b,
        None => return,
    };
    let p = pos_of(b.raw());
    vassume!(occ_of(&p.cells, |c| c != 0 && color_of(c) == p.side).count_ones() == 1);
    let k = find_king(&p.cells, p.side);
    let (kf, kr) = ((k & 7) as i8, (k >> 3) as i8);
    let mut h = false;
    let mut d = 0;
    while d < 8 {
        let (df, dr) = [(-1i8, -1i8), (-1, 0), (-1, 1), (0, -1), (0, 1), (1, -1), (1, 0), (1, 1)][d];
        let (f, r) = (kf + df, kr + dr);
        if f >= 0 && f < 8 && r >= 0 && r < 8 {
            let m = M { kind: K_SIMPLE, cell: mk(p.side, K), src: k, dst: (r * 8 + f) as u8 };
            if legal_ref(&p, m) {
                h = true;
            }
        }
        d += 1;
    }
    #[cfg(kani)]
    unsafe {
        crate::stubs::HLM = h
    };
    let got = b.calc_outcome();
    let want = outcome_ref(&p, h);
    vnote!("fen={} legal king step exists={} real probe={} got={:?} want={:?}", b.as_fen(), h, b.has_legal_moves(), got, want);
    #[cfg(not(kani))]
    vassert!("has_legal_moves = (a legal king step exists) for a lone king", b.has_legal_moves() == h);
    vassert!("calc_outcome = forced > mandatory > claimable classification (lone king to move)", got == want);
    vcover!("lone king stalemated with insufficient material on the board", !h && !in_check_ref(&p) && insufficient_ref(&p.cells));
    vcover!("lone king mated", !h && in_check_ref(&p));
    vcover!("lone king with a move", h);
}

/// diagnostic (not in any tier): the wiring assertions on a board with three symbolic cells only
pub fn wiring_semi<S: Src, const SIDE: u8>(s: &mut S) {
    use owlchess::{Board, Cell, RawBoard};
    let mut r = RawBoard::empty();
    r.cells[23] = Cell::from_index(2);
    r.cells[27] = Cell::from_index(s.below(2) as usize);
    r.cells[38] = Cell::from_index(s.below(2) as usize);
    r.cells[51] = Cell::from_index(8);
    r.cells[53] = Cell::from_index(10);
    r.cells[49] = Cell::from_index(7 + s.below(6) as usize);
    let b = match Board::try_from(r) {
        Ok(b) => b,
        Err(_) => return,
    };
    let p = pos_of(b.raw());
    #[cfg(kani)]
    {
        let t = any_m(s);
        let ans = s.bool();
        crate::s6::reset(mv_of(t), ans);
        let h = b.has_legal_moves();
        let t_candidate = semilegal_ref(&p, t) && t.kind != K_OO && t.kind != K_OOO;
        let (asked, last_true, first) = unsafe { (crate::s6::T_ASKED, crate::s6::LAST_TRUE, owlchess::verif::FIRST_LEGAL) };
        vassert!("the filter is asked only about pseudo-legal non-castling moves", asked == 0 || t_candidate);
        if !h {
            vassert!("'no legal move' only if every candidate was offered and rejected", !(t_candidate && ans) && (!t_candidate || asked == 1));
            vassert!("'no legal move' only if the filter accepted nothing", last_true.is_none());
        } else {
            vassert!("'has a legal move' exactly by stopping on a move the filter accepted", first.is_some() && first == last_true);
        }
        vcover!("no move", !h);
        vcover!("stops on target", h && first == Some(mv_of(t)));
    }
    #[cfg(not(kani))]
    {
        let _ = (p, SIDE);
    }
}

/// `has_legal_moves` with the REAL legality filter on GEN(KP, KN): false only if no move is legal by
/// the rules (a symbolic target stands for all moves), true only by stopping on a move that is legal
/// by the rules (witness hook).  No S6 here; the price is one real legality check per generated move.
pub fn has_legal_moves_direct<S: Src, const SIDE: u8, const KP: u32, const KN: u32>(s: &mut S) {
    crate::stubs::draw_hash_pool(s);
    let b = match any_board(s, SIDE) {
        Some(b) => b,
        None => return,
    };
    vassume!(gen_bound2(&b, KP, KN));
    let p = pos_of(b.raw());
    let t = any_m(s);
    unsafe { owlchess::verif::FIRST_LEGAL = None };
    let h = b.has_legal_moves();
    let first = unsafe { owlchess::verif::FIRST_LEGAL };
    vnote!("fen={} has_legal_moves={} stopped on {:?}; probe move {:?} legal by rules={}", b.as_fen(), h, first, mv_of(t), legal_ref(&p, t));
    if !h {
        vassert!("'no legal move' only if no move is legal by the rules", !legal_ref(&p, t));
    } else {
        match first {
            Some(w) => vassert!("'has a legal move' by stopping on a move that is legal by the rules", legal_ref(&p, m_of(w))),
            None => vassert!("'has a legal move' only with a witness", false),
        }
    }
    vcover!("no legal move", !h);
    vcover!("the only legal move is an en passant capture", h && first.map(|w| w.kind() == owlchess::MoveKind::Enpassant).unwrap_or(false));
}
