//! Solver-based checking of owlchess: harness crate.
//!
//! Every harness body is an ordinary generic function `fn body<S: Src>(s: &mut S)`.
//! Under Kani the source hands out `kani::any()` values; natively (the `replay` binary) it
//! reads back the byte vectors of a solver counterexample, so the *same* body is re-executed
//! against the real crate before a violation is reported.

#![allow(clippy::all)]
#![allow(static_mut_refs)]
#![allow(unused_unsafe)]
#![allow(dead_code)]

pub mod rules;
pub mod spec;

#[macro_use]
pub mod src;
pub mod dom;
pub mod stubs;
pub mod s6;

pub mod c01;
pub mod c02;
pub mod c03;
pub mod c05;
pub mod c06;
pub mod c07;
pub mod c09;
pub mod c10;
pub mod c11;
pub mod c12;
pub mod c13;
pub mod c14;
pub mod c15;
pub mod c16;
pub mod c18;
pub mod c20;
#[cfg(kani)]
pub mod diag;

#[macro_use]
pub mod registry;
