//! C13 / C14 / C17: move chains, repetition counting, walkers.
//!
//! Unit of decision: ONE symbolic operation applied to a chain state reached from a stated set of
//! concrete start positions by a stated set of concrete prefixes (DESIGN.md, C13).
use crate::c03::same_board;
use crate::dom::*;
use crate::rules::*;
use crate::spec::*;
use crate::src::Src;
use owlchess::chain::{BaseMoveChain, Repeat};
use owlchess::moves::uci;
use owlchess::types::OutcomeFilter;
use owlchess::{Board, CastlingRights, Cell, Color, Coord, DrawReason, Move, Outcome, RawBoard, WinReason};

// ------------------------------------------------------------------ repetition table
/// key of a position in the table: its stored Zobrist hash (real tables, no S2) - exactly what the
/// library's own `HashRepeat` uses; "same position" <=> "same hash" is the stated no-collision assumption
pub type Key = u64;
pub fn key_of(b: &Board) -> Key {
    b.zobrist_hash()
}
pub const CAP: usize = 12;
pub static mut REP: [Option<Key>; CAP] = [None; CAP];
pub static mut REP_N: usize = 0;
pub static mut REP_BAD_POP: bool = false;

/// array-backed multiset of position keys; lives in a static so the harness can compare it with
/// the model (the chain does not expose its table)
#[derive(Default, Clone, Debug)]
pub struct ArrRepeat;
impl Repeat for ArrRepeat {
    fn push(&mut self, b: &Board) {
        unsafe {
            REP[REP_N] = Some(key_of(b));
            REP_N += 1;
        }
    }
    fn pop(&mut self, b: &Board) {
        let k = Some(key_of(b));
        unsafe {
            // constant trip count (CAP); the data-dependent part is a condition inside
            let mut j = 0;
            while j < CAP {
                let i = CAP - 1 - j;
                if i < REP_N && REP[i] == k {
                    REP[i] = REP[REP_N - 1];
                    REP[REP_N - 1] = None;
                    REP_N -= 1;
                    return;
                }
                j += 1;
            }
            REP_BAD_POP = true;
        }
    }
    fn count(&self, b: &Board) -> usize {
        let k = Some(key_of(b));
        let mut c = 0;
        let mut i = 0;
        unsafe {
            while i < CAP {
                if i < REP_N && REP[i] == k {
                    c += 1;
                }
                i += 1;
            }
        }
        c
    }
}
pub fn rep_reset() {
    unsafe {
        REP = [None; CAP];
        REP_N = 0;
        REP_BAD_POP = false;
    }
}
fn rep_count_key(k: &Key) -> usize {
    let mut c = 0;
    let mut i = 0;
    unsafe {
        while i < CAP {
            if i < REP_N && REP[i] == Some(*k) {
                c += 1;
            }
            i += 1;
        }
    }
    c
}

pub type Chain = BaseMoveChain<ArrRepeat>;

// ------------------------------------------------------------------ stated start positions
fn put(r: &mut RawBoard, sq: &str, cell: u8) {
    let b = sq.as_bytes();
    let i = ((b'8' - b[1]) as usize) * 8 + (b[0] - b'a') as usize;
    r.cells[i] = Cell::from_index(cell as usize);
}
const WP: u8 = 1;
const WK: u8 = 2;
const WN: u8 = 3;
const WB: u8 = 4;
const WR: u8 = 5;
const WQ: u8 = 6;
const BP: u8 = 7;
const BK: u8 = 8;
const BN: u8 = 9;
const BB_: u8 = 10;
const BR: u8 = 11;
const BQ: u8 = 12;

fn sq(sq: &str) -> u8 {
    let b = sq.as_bytes();
    ((b'8' - b[1]) * 8 + (b[0] - b'a')) as u8
}

pub const N_START: u8 = 6;
/// the stated finite set START (listed in the evidence)
pub const START_FENS: [&str; 6] = [
    "r3k2r/pP3ppp/8/3pP3/8/8/P4PPP/R3K2R w KQkq d6 0 1",
    "r3k2r/p4ppp/8/8/3Pp3/8/Pp3PPP/R3K2R b KQkq d3 0 1",
    "6k1/5ppp/8/8/8/8/8/R3K3 w Q - 0 1",
    "7k/5Q2/8/8/8/8/8/K7 w - - 99 60",
    "4k3/8/8/8/8/8/4r3/R3K2R w KQ - 149 1",
    "4k1n1/8/8/8/8/8/8/4K1N1 w - - 0 1",
];
pub fn start_board(i: u8) -> Board {
    let mut r = RawBoard::empty();
    match i {
        0 => {
            for (s, c) in [("a8", BR), ("e8", BK), ("h8", BR), ("a7", BP), ("b7", WP), ("f7", BP), ("g7", BP), ("h7", BP), ("d5", BP), ("e5", WP),
                ("a2", WP), ("f2", WP), ("g2", WP), ("h2", WP), ("a1", WR), ("e1", WK), ("h1", WR)] {
                put(&mut r, s, c);
            }
            r.castling = CastlingRights::FULL;
            r.ep_source = Some(Coord::from_index(sq("d5") as usize));
        }
        1 => {
            for (s, c) in [("a8", BR), ("e8", BK), ("h8", BR), ("a7", BP), ("f7", BP), ("g7", BP), ("h7", BP), ("d4", WP), ("e4", BP),
                ("a2", WP), ("b2", BP), ("f2", WP), ("g2", WP), ("h2", WP), ("a1", WR), ("e1", WK), ("h1", WR)] {
                put(&mut r, s, c);
            }
            r.side = Color::Black;
            r.castling = CastlingRights::FULL;
            r.ep_source = Some(Coord::from_index(sq("d4") as usize));
        }
        2 => {
            for (s, c) in [("g8", BK), ("f7", BP), ("g7", BP), ("h7", BP), ("a1", WR), ("e1", WK)] {
                put(&mut r, s, c);
            }
            r.castling = CastlingRights::from_index(1);
        }
        3 => {
            for (s, c) in [("h8", BK), ("f7", WQ), ("a1", WK)] {
                put(&mut r, s, c);
            }
            r.move_counter = 99;
            r.move_number = 60;
        }
        4 => {
            for (s, c) in [("e8", BK), ("e2", BR), ("a1", WR), ("e1", WK), ("h1", WR)] {
                put(&mut r, s, c);
            }
            r.castling = CastlingRights::from_index(3);
            r.move_counter = 149;
        }
        _ => {
            for (s, c) in [("e8", BK), ("g8", BN), ("e1", WK), ("g1", WN)] {
                put(&mut r, s, c);
            }
        }
    }
    let _ = (WB, WN, BB_, BQ, BN);
    Board::try_from(r).unwrap()
}

fn mk_move(b: &Board, from: &str, to: &str, promo: u8) -> Move {
    let u = uci::Move::Move { src: Coord::from_index(sq(from) as usize), dst: Coord::from_index(sq(to) as usize), promote: crate::c10::promote_of(promo) };
    u.into_move(b).unwrap()
}

/// stated concrete prefixes per start position (index PRE), applied with `push`
/// 0: none   1: one special/irreversible move   2: a refused push, then a move, then a pop
/// 3: knight shuffle back to the start position (repetition count 2)   4: as 3, twice (count 3)
pub const N_PRE: u8 = 5;
pub fn prefix_moves(start: u8, pre: u8) -> &'static [(&'static str, &'static str, u8)] {
    match (start, pre) {
        (0, 1) => &[("e1", "g1", 0)],
        (0, 2) => &[("e5", "d6", 0)],
        (0, 3) => &[("b7", "a8", 4), ("e8", "e7", 0)],
        (1, 1) => &[("e8", "c8", 0)],
        (1, 2) => &[("e4", "d3", 0)],
        (1, 3) => &[("b2", "a1", 2), ("e1", "e2", 0)],
        (2, 1) => &[("a1", "a7", 0)],
        (3, 1) => &[("f7", "f1", 0)],
        (4, 1) => &[("e1", "e2", 0)],
        (5, 1) => &[("g1", "f3", 0)],
        (5, 3) => &[("g1", "f3", 0), ("g8", "f6", 0), ("f3", "g1", 0), ("f6", "g8", 0)],
        (5, 4) => &[("g1", "f3", 0), ("g8", "f6", 0), ("f3", "g1", 0), ("f6", "g8", 0), ("g1", "f3", 0), ("g8", "f6", 0), ("f3", "g1", 0), ("f6", "g8", 0)],
        _ => &[],
    }
}

/// Model of a chain: the plain-board path.  The part built by the concrete prefix keeps CONCRETE
/// indices (`base`); the one symbolic operation lives in `extra` / `popped`, so no array is ever
/// written at a symbolic index (that alone took the harness from 26 GB to a few GB).
pub struct Model {
    boards: [Option<Board>; CAP], // boards[i] = position before move i (concrete part)
    moves: [Option<Move>; CAP],
    base: usize,                  // concrete number of moves after the prefix
    extra: Option<(Move, Board)>, // the symbolic push, if accepted
    popped: usize,                // symbolic pops that reached into the concrete part (0..=2)
    pub outcome: Option<Outcome>,
}
impl Model {
    pub fn new(b: Board) -> Model {
        let mut boards: [Option<Board>; CAP] = Default::default();
        boards[0] = Some(b);
        Model { boards, moves: [None; CAP], base: 0, extra: None, popped: 0, outcome: None }
    }
    pub fn push_concrete(&mut self, mv: Move, nb: Board) {
        self.moves[self.base] = Some(mv);
        self.base += 1;
        self.boards[self.base] = Some(nb);
    }
    pub fn pop_concrete(&mut self) -> Option<Move> {
        if self.base == 0 {
            return None;
        }
        self.boards[self.base] = None;
        self.base -= 1;
        self.outcome = None;
        self.moves[self.base].take()
    }
    fn back(&self) -> usize {
        self.base - self.popped
    }
    pub fn len(&self) -> usize {
        self.back() + self.extra.is_some() as usize
    }
    pub fn start(&self) -> &Board {
        self.boards[0].as_ref().unwrap()
    }
    pub fn cur(&self) -> &Board {
        if let Some((_, b)) = &self.extra {
            return b;
        }
        match self.popped {
            0 => self.boards[self.base].as_ref().unwrap(),
            1 => self.boards[self.base - 1].as_ref().unwrap(),
            _ => self.boards[self.base - 2].as_ref().unwrap(),
        }
    }
    /// position before move i / current position for i == len (i is a concrete index)
    pub fn board_at(&self, i: usize) -> Option<&Board> {
        if i <= self.back() {
            self.boards[i].as_ref()
        } else if i == self.back() + 1 {
            self.extra.as_ref().map(|x| &x.1)
        } else {
            None
        }
    }
    pub fn move_at(&self, i: usize) -> Option<Move> {
        if i < self.back() {
            self.moves[i]
        } else if i == self.back() {
            self.extra.as_ref().map(|x| x.0)
        } else {
            None
        }
    }
    /// the symbolic push (at most one per harness)
    pub fn push(&mut self, mv: Move, nb: Board) {
        self.extra = Some((mv, nb));
    }
    pub fn pop(&mut self) -> Option<Move> {
        if let Some((mv, _)) = self.extra.take() {
            self.outcome = None;
            return Some(mv);
        }
        if self.back() == 0 || self.popped >= 2 {
            return None;
        }
        self.popped += 1;
        self.outcome = None;
        match self.popped {
            1 => self.moves[self.base - 1],
            _ => self.moves[self.base - 2],
        }
    }
    /// occurrences of the current position on the current line
    pub fn count_cur(&self) -> usize {
        let k = key_of(self.cur());
        let mut c = 0;
        let mut i = 0;
        while i < CAP {
            if let Some(b) = self.board_at(i) {
                if key_of(b) == k {
                    c += 1;
                }
            }
            i += 1;
        }
        c
    }
}

/// build (chain, model) for a stated (start, prefix); everything here is concrete
pub fn build(start: u8, pre: u8) -> (Chain, Model) {
    rep_reset();
    let b0 = start_board(start);
    let mut ch: Chain = BaseMoveChain::new(b0.clone());
    let mut md = Model::new(b0);
    {
        // warm-up: push and pop one concrete legal move so that the chain's Vec owns its buffer before
        // the symbolic operation (a first allocation inside a symbolic branch makes every later access go
        // through a symbolic pointer); not observable through the API: pop restores the state
        let w = prefix_moves(start, 1);
        if !w.is_empty() {
            let (f, t, p) = w[0];
            let mv = mk_move(md.cur(), f, t, p);
            ch.push(mv).unwrap();
            let _ = ch.pop();
        }
    }
    if pre == 2 {
        // a refused push first (a king "move" onto an own man / illegal tuple)
        let bad = Move::NULL;
        let _ = ch.push(bad);
    }
    let list = prefix_moves(start, if pre == 2 { 2 } else { pre });
    let mut i = 0;
    while i < list.len() {
        let (f, t, p) = list[i];
        let mv = mk_move(md.cur(), f, t, p);
        let nb = md.cur().make_move(mv).unwrap();
        ch.push(mv).unwrap();
        md.push_concrete(mv, nb);
        i += 1;
    }
    if pre == 2 {
        // ... then pop it again
        let _ = ch.pop();
        let _ = md.pop_concrete();
    }
    (ch, md)
}

/// the chain agrees with the model in every observable respect
fn agree(ch: &Chain, md: &Model) -> bool {
    if ch.len() != md.len() || ch.is_empty() != (md.len() == 0) || *ch.outcome() != md.outcome || !same_board(ch.last(), md.cur()) {
        return false;
    }
    if *ch.startpos() != *md.start().raw() {
        return false;
    }
    let mut i = 0;
    let mut it = ch.iter();
    let mut ok = true;
    while i < CAP {
        if i < md.len() && (Some(ch.get(i)) != md.move_at(i) || it.next() != md.move_at(i)) {
            ok = false;
        }
        i += 1;
    }
    ok && it.next().is_none()
}

/// repetition table = multiset of the positions on the current line
fn rep_agrees(md: &Model) -> bool {
    if unsafe { REP_N } != md.len() + 1 || unsafe { REP_BAD_POP } {
        return false;
    }
    let mut i = 0;
    let mut ok = true;
    while i < CAP {
        if let Some(bi) = md.board_at(i) {
            let k = key_of(bi);
            let mut c = 0;
            let mut j = 0;
            while j < CAP {
                if let Some(bj) = md.board_at(j) {
                    if key_of(bj) == k {
                        c += 1;
                    }
                }
                j += 1;
            }
            if rep_count_key(&k) != c {
                ok = false;
            }
        }
        i += 1;
    }
    ok
}

fn any_outcome<S: Src>(s: &mut S) -> Outcome {
    match s.below(8) {
        0 => Outcome::Win { side: Color::White, reason: WinReason::Checkmate },
        1 => Outcome::Win { side: Color::Black, reason: WinReason::Checkmate },
        2 => Outcome::Draw(DrawReason::Stalemate),
        3 => Outcome::Draw(DrawReason::InsufficientMaterial),
        4 => Outcome::Draw(DrawReason::Moves75),
        5 => Outcome::Draw(DrawReason::Repeat5),
        6 => Outcome::Draw(DrawReason::Moves50),
        _ => Outcome::Draw(DrawReason::Repeat3),
    }
}

fn model_outcome(md: &Model) -> Option<Outcome> {
    let bo = md.cur().calc_outcome();
    let strict = match bo {
        Some(o) => o.passes(OutcomeFilter::Strict),
        None => false,
    };
    if strict {
        return bo;
    }
    let n = md.count_cur();
    if n >= 5 {
        Some(Outcome::Draw(DrawReason::Repeat5))
    } else if n >= 3 {
        Some(Outcome::Draw(DrawReason::Repeat3))
    } else {
        bo
    }
}

/// operation codes: 1..=11 = push a `Move` of that move-kind group (dom::KG_*), 20 = push any UCI value,
/// 30 = pop / outcome operations
pub const OP_PUSH_UCI: u8 = 20;
pub const OP_OTHER: u8 = 30;

fn any_m_rt<S: Src>(s: &mut S, side: u8, kg: u8) -> M {
    match (side, kg) {
        (0, KG_KING) => any_m_g::<S, WHITE, KG_KING>(s),
        (0, KG_PAWN) => any_m_g::<S, WHITE, KG_PAWN>(s),
        (0, KG_KNIGHT) => any_m_g::<S, WHITE, KG_KNIGHT>(s),
        (0, KG_BISHOP) => any_m_g::<S, WHITE, KG_BISHOP>(s),
        (0, KG_ROOK) => any_m_g::<S, WHITE, KG_ROOK>(s),
        (0, KG_QUEEN) => any_m_g::<S, WHITE, KG_QUEEN>(s),
        (0, KG_PSPECIAL) => any_m_g::<S, WHITE, KG_PSPECIAL>(s),
        (0, KG_EP) => any_m_g::<S, WHITE, KG_EP>(s),
        (0, KG_CASTLING) => any_m_g::<S, WHITE, KG_CASTLING>(s),
        (0, KG_FOREIGN) => any_m_g::<S, WHITE, KG_FOREIGN>(s),
        (1, KG_KING) => any_m_g::<S, BLACK, KG_KING>(s),
        (1, KG_PAWN) => any_m_g::<S, BLACK, KG_PAWN>(s),
        (1, KG_KNIGHT) => any_m_g::<S, BLACK, KG_KNIGHT>(s),
        (1, KG_BISHOP) => any_m_g::<S, BLACK, KG_BISHOP>(s),
        (1, KG_ROOK) => any_m_g::<S, BLACK, KG_ROOK>(s),
        (1, KG_QUEEN) => any_m_g::<S, BLACK, KG_QUEEN>(s),
        (1, KG_PSPECIAL) => any_m_g::<S, BLACK, KG_PSPECIAL>(s),
        (1, KG_EP) => any_m_g::<S, BLACK, KG_EP>(s),
        (1, KG_CASTLING) => any_m_g::<S, BLACK, KG_CASTLING>(s),
        (1, KG_FOREIGN) => any_m_g::<S, BLACK, KG_FOREIGN>(s),
        _ => any_m_g::<S, WHITE, KG_NULL>(s),
    }
}

/// one symbolic operation on the stated chain state (START, PRE), optionally followed by a pop
pub fn chain_step<S: Src, const START: u8, const PRE: u8, const OP: u8, const FLAGS: u8>(s: &mut S) {
    // OP: 1..=11 push a move of that group, 20 push a UCI value, 30 pop / outcome operations
    // FLAGS: bit 1 = compare the calculated outcome afterwards,
    // bit 2 = compare the repetition table with the positions on the line (always on for OP_OTHER)
    // (each board-level step costs about 100k SSA steps even on concrete data, so a harness does one thing)
    let (mut ch, mut md) = build(START, PRE);
    #[cfg(kani)]
    {
        let h = s.bool();
        unsafe { crate::stubs::HLM = h };
    }
    #[cfg(not(kani))]
    let _ = s.bool();
    let side = if md.cur().side() == Color::White { 0u8 } else { 1u8 };
    let base_len = md.len();
    match OP {
        1..=11 => {
            let m = any_m_rt(s, side, OP);
            vassume!(wf_ref(m));
            let mv = mv_of(m);
            let want = md.cur().make_move(mv);
            let got = ch.push(mv);
            vnote!("start={} prefix={} push {:?}: chain {:?} plain board {:?}", START_FENS[START as usize], PRE, mv, got, want.as_ref().map(|b| b.as_fen()));
            vassert!("push accepted exactly when the plain board accepts the move", got.is_ok() == want.is_ok());
            if let Ok(nb) = want {
                md.push(mv, nb);
            }
        }
        OP_PUSH_UCI => {
            let src = s.below(64);
            let dst = s.below(64);
            let pr = s.below(5);
            let u = if s.bool() { uci::Move::Null } else { uci::Move::Move { src: Coord::from_index(src as usize), dst: Coord::from_index(dst as usize), promote: crate::c10::promote_of(pr) } };
            let want = md.cur().make_move(u);
            let got = ch.push(u);
            vassert!("UCI push accepted exactly when the plain board accepts the value", got.is_ok() == want.is_ok());
            if let Ok(nb) = want {
                let mv = u.into_move(md.cur()).unwrap();
                md.push(mv, nb);
            }
        }
        _ => match s.below(5) {
            0 => {
                let got = ch.pop();
                let want = md.pop();
                vassert!("pop returns the latest accepted move (None on the empty chain)", got == want);
            }
            1 => {
                let o = any_outcome(s);
                ch.set_outcome(o);
                md.outcome = Some(o);
            }
            2 => {
                ch.clear_outcome();
                md.outcome = None;
            }
            3 => {
                let o = if s.bool() { Some(any_outcome(s)) } else { None };
                ch.reset_outcome(o);
                md.outcome = o;
            }
            _ => {
                let f = match s.below(3) {
                    0 => OutcomeFilter::Force,
                    1 => OutcomeFilter::Strict,
                    _ => OutcomeFilter::Relaxed,
                };
                let want = model_outcome(&md);
                let calc = ch.calc_outcome();
                vassert!("calculated outcome = forced, else mandatory (incl. 5 occurrences), else claimable (incl. 3), else none", calc == want);
                let stored = ch.set_auto_outcome(f);
                let pass = match want {
                    Some(o) => o.passes(f),
                    None => false,
                };
                md.outcome = if pass { want } else { None };
                vassert!("auto outcome stored exactly when it passes the filter", stored == md.outcome);
            }
        },
    }
    vassert!("after the operation: position, move list, start and outcome equal the model", agree(&ch, &md));
    if FLAGS & 4 != 0 || OP == OP_OTHER {
        vassert!("after the operation: repetition table = positions on the line", rep_agrees(&md));
    }
    if FLAGS & 2 != 0 {
        vassert!("after the operation: calculated outcome follows the history", ch.calc_outcome() == model_outcome(&md));
    }
    vcover!("a refused push (groups that are never legal)", !(OP == KG_FOREIGN || OP == KG_NULL) || md.len() == base_len);
    vcover!("an accepted push (other push harnesses)", OP == OP_OTHER || OP == KG_FOREIGN || OP == KG_NULL || md.len() > base_len);
    core::mem::forget(ch);
}

/// push then pop WITHOUT the plain-board model: the pre-state is saved and must come back.
/// accepted push: pop returns that move, position (every field), length, repetition table size and outcome
/// are those before; refused push: nothing changed in the first place.
pub fn chain_push_pop<S: Src, const START: u8, const PRE: u8, const OP: u8>(s: &mut S) {
    let (mut ch, md) = build(START, PRE);
    let side = if md.cur().side() == Color::White { 0u8 } else { 1u8 };
    let before = ch.last().clone();
    let len0 = ch.len();
    let rep0 = unsafe { REP_N };
    let m = any_m_rt(s, side, OP);
    vassume!(wf_ref(m));
    let mv = mv_of(m);
    let r = ch.push(mv);
    vnote!("start={} prefix={} push {:?}: {:?}", START_FENS[START as usize], PRE, mv, r);
    if r.is_ok() {
        vassert!("an accepted push extends the move list by that move", ch.len() == len0 + 1 && ch.get(len0) == mv && unsafe { REP_N } == rep0 + 1);
        let got = ch.pop();
        vassert!("pop returns the move just pushed", got == Some(mv));
    } else {
        vassert!("a refused push changes nothing", ch.len() == len0 && unsafe { REP_N } == rep0);
    }
    vassert!("after push (+ pop): the position is the previous one in every field", same_board(ch.last(), &before));
    let pc = s.below(13);
    vassert!("after push (+ pop): every per-piece set is the previous one", ch.last().piece(Cell::from_index(pc as usize)) == before.piece(Cell::from_index(pc as usize)));
    vassert!("after push (+ pop): length, repetition table size and outcome are the previous ones", ch.len() == len0 && unsafe { REP_N } == rep0 && !unsafe { REP_BAD_POP } && ch.outcome().is_none());
    vcover!("accepted and popped", OP == KG_FOREIGN || OP == KG_NULL || r.is_ok());
    core::mem::forget(ch);
}

/// `==` of two chains after one symbolic push each <=> equal (start, moves, outcome)
/// second start: 0 = same position, 1 = same squares but another half-move clock,
/// 2 = same squares without the mover's castling rights, 3 = another stated position
fn variant_board(start: u8, variant: u8) -> Board {
    let b = start_board(start);
    let mut r = *b.raw();
    match variant {
        0 => b,
        1 => {
            r.move_counter = r.move_counter.wrapping_add(7);
            Board::try_from(r).unwrap()
        }
        2 => {
            // drop the rights of the side to move only
            let keep = if r.side == Color::White { 12 } else { 3 };
            r.castling = CastlingRights::from_index(r.castling.index() & keep);
            Board::try_from(r).unwrap()
        }
        _ => start_board((start + 1) % N_START),
    }
}

pub fn chain_eq<S: Src, const START: u8, const KG: u8, const VARIANT: u8>(s: &mut S) {
    // chain 1: stated start + one symbolic push of group KG; chain 2: a variant of the start (same / other
    // clock / without the mover's castling rights / another position) + optionally one CONCRETE move of the group.
    // No plain-board model here: equality is about (start, move list, outcome) only.
    rep_reset();
    let b1 = start_board(START);
    let mut c1: Chain = BaseMoveChain::new(b1.clone());
    // the variant is a const: a symbolic choice among four boards made every later step four-way (41 GB)
    let b2 = variant_board(START, VARIANT);
    let mut c2: Chain = BaseMoveChain::new(b2.clone());
    let side = if b1.side() == Color::White { 0u8 } else { 1u8 };
    let a = any_m_rt(s, side, KG);
    vassume!(wf_ref(a));
    let r1 = c1.push(mv_of(a));
    let mut mv2: Option<Move> = None;
    if s.bool() {
        // a stated concrete move of that group (if it is legal in chain 2's position)
        let (f, t, p) = match (START, KG) {
            (0, KG_PAWN) => ("a2", "a3", 0),
            (0, KG_KING) => ("e1", "f1", 0),
            (0, KG_CASTLING) => ("e1", "g1", 0),
            (1, KG_PSPECIAL) => ("b2", "b1", 4),
            _ => ("g1", "f3", 0),
        };
        let u = uci::Move::Move { src: Coord::from_index(sq(f) as usize), dst: Coord::from_index(sq(t) as usize), promote: crate::c10::promote_of(p) };
        if let Ok(mv) = u.into_move(&b2) {
            if c2.push(mv).is_ok() {
                mv2 = Some(mv);
            }
        }
    }
    let o1 = if s.bool() { Some(any_outcome(s)) } else { None };
    let o2 = if s.bool() { Some(any_outcome(s)) } else { None };
    c1.reset_outcome(o1);
    c2.reset_outcome(o2);
    let same_moves = match (r1.is_ok(), mv2) {
        (false, None) => true,
        (true, Some(m)) => m == mv_of(a),
        _ => false,
    };
    let want = b1.raw() == b2.raw() && same_moves && o1 == o2;
    vnote!("start 1 {} + {:?} ({}) vs start 2 {} + {:?}: == is {}, should be {}", b1.as_fen(), mv_of(a), r1.is_ok(), b2.as_fen(), mv2, c1 == c2, want);
    vassert!("chains compare equal exactly when start, move list and outcome are equal", (c1 == c2) == want);
    vcover!("equal chains with a move (same start)", VARIANT != 0 || (want && r1.is_ok()));
    vcover!("different starts whose current positions coincide after the same move (clock variant + pawn move, rights variant + king move)",
        !((VARIANT == 1 && KG == KG_PAWN) || (VARIANT == 2 && KG == KG_KING)) || (!want && r1.is_ok() && same_moves && o1 == o2 && c1.last().raw() == c2.last().raw()));
    vcover!("same start, different move", VARIANT != 0 || (!want && r1.is_ok() && mv2.is_some() && o1 == o2));
    core::mem::forget(c1);
    core::mem::forget(c2);
}

/// pair (board, move) returned by the walker equals the model's pair at (symbolic) cursor `cur`;
/// `n` (the chain length) is concrete in the walker harnesses, so the loop has n iterations
fn pair_matches(md: &Model, n: usize, cur: usize, b: &Board, mv: Move) -> bool {
    let mut ok = false;
    let mut j = 0;
    while j < n {
        if j == cur {
            ok = match md.board_at(j) {
                Some(x) => same_board(b, x) && Some(mv) == md.move_at(j),
                None => false,
            };
        }
        j += 1;
    }
    ok
}

/// CONC encodes a concrete operation sequence in base-5 digits, least significant first (1 next, 2 prev, 3 start, 4 end;
/// 0 terminates): the walker state after it is a stated concrete state; then NOPS symbolic operations
pub fn walker_steps<S: Src, const START: u8, const PRE: u8, const KG: u8, const CONC: usize, const NOPS: usize>(s: &mut S) {
    let (mut ch, mut md) = build(START, PRE);
    if KG != 0 {
        let side = pos_of(md.cur().raw()).side;
        let m = any_m_rt(s, side, KG);
        vassume!(wf_ref(m));
        if let Ok(nb) = md.cur().make_move(mv_of(m)) {
            ch.push(mv_of(m)).unwrap();
            md.push(mv_of(m), nb);
        }
    }
    let n = md.len();
    {
        let mut w = ch.walk();
        let mut cur = 0usize;
        vassert!("walker starts at the beginning and knows the length", w.pos() == 0 && w.len() == n && w.is_empty() == (n == 0));
        let mut k = 0;
        let mut conc = CONC;
        let mut sym_left = NOPS;
        while k < 8 + NOPS {
            let op = if conc % 5 != 0 {
                let d = (conc % 5) as u8 - 1;
                conc /= 5;
                d
            } else if sym_left > 0 {
                sym_left -= 1;
                s.below(4)
            } else {
                break;
            };
            match op {
                0 => match w.next() {
                    Some((b, mv)) => {
                        vassert!("next is Some only before the end", cur < n);
                        vassert!("next returns move i with the position that preceded it (every field)", pair_matches(&md, n, cur, b, mv));
                        cur += 1;
                    }
                    None => vassert!("next is None exactly at the end", cur == n),
                },
                1 => match w.prev() {
                    Some((b, mv)) => {
                        vassert!("prev is Some only after the start", cur > 0);
                        cur -= 1;
                        vassert!("prev returns move i with the position that preceded it (every field)", pair_matches(&md, n, cur, b, mv));
                    }
                    None => vassert!("prev is None exactly at the start", cur == 0),
                },
                2 => {
                    w.start();
                    cur = 0;
                }
                _ => {
                    w.end();
                    cur = n;
                }
            }
            vassert!("pos() tracks the cursor", w.pos() == cur);
            k += 1;
        }
        vcover!("walked to the end and back", cur == 0 && n >= 1);
        vcover!("stepped back from the end", cur + 1 == n && n >= 2);
    }
    // (the walker borrows the chain immutably, so the type system already forbids mutation; the live board is compared anyway)
    vassert!("walking leaves the chain untouched", same_board(ch.last(), md.cur()) && ch.len() == n && ch.outcome().is_none());
    core::mem::forget(ch);
}
