//! scratch diagnostics (cost bisection); not part of any check
#![cfg(kani)]
use crate::c13::*;
use crate::dom::*;
use crate::rules::*;
use owlchess::Board;

macro_rules! dproof {
    ($name:ident, $body:block) => {
        #[kani::proof]
        #[kani::unwind(66)]
        #[kani::stub(owlchess::attack::rook, crate::stubs::rook_stub)]
        #[kani::stub(owlchess::attack::bishop, crate::stubs::bishop_stub)]
        #[kani::stub(owlchess::movegen::has_legal_moves, crate::stubs::hlm_stub)]
        fn $name() $body
    };
}

dproof!(d1_build_only, {
    let (ch, md) = build(0, 0);
    assert!(ch.len() == md.len());
    core::mem::forget(ch);
});

dproof!(d2_chain_push, {
    let (mut ch, md) = build(0, 0);
    let ks: bool = kani::any();
    let m = if ks { M { kind: K_OO, cell: 2, src: 60, dst: 62 } } else { M { kind: K_OOO, cell: 2, src: 60, dst: 58 } };
    let r = ch.push(mv_of(m));
    assert!(r.is_ok());
    assert!(ch.len() == md.len() + 1);
    core::mem::forget(ch);
});

dproof!(d3_board_make, {
    let b = start_board(0);
    let ks: bool = kani::any();
    let m = if ks { M { kind: K_OO, cell: 2, src: 60, dst: 62 } } else { M { kind: K_OOO, cell: 2, src: 60, dst: 58 } };
    let r = b.make_move(mv_of(m));
    assert!(r.is_ok());
});

dproof!(d4_start_board, {
    let b = start_board(0);
    assert!(b.raw().move_number == 1);
});
