//! scratch diagnostics (cost bisection); not part of any check
#![cfg(kani)]
use crate::c13::*;
use crate::dom::*;
use crate::rules::*;
use owlchess::Board;

macro_rules! dproof {
    ($name:ident, $body:block) => {
        #[kani::proof]
        #[kani::unwind(66)]
        #[kani::stub(owlchess::attack::rook, crate::stubs::rook_stub)]
        #[kani::stub(owlchess::attack::bishop, crate::stubs::bishop_stub)]
        #[kani::stub(owlchess::movegen::has_legal_moves, crate::stubs::hlm_stub)]
        fn $name() $body
    };
}

dproof!(d1_build_only, {
    let (ch, md) = build(0, 0);
    assert!(ch.len() == md.len());
    core::mem::forget(ch);
});

dproof!(d2_chain_push, {
    let (mut ch, md) = build(0, 0);
    let ks: bool = kani::any();
    let m = if ks { M { kind: K_OO, cell: 2, src: 60, dst: 62 } } else { M { kind: K_OOO, cell: 2, src: 60, dst: 58 } };
    let r = ch.push(mv_of(m));
    assert!(r.is_ok());
    assert!(ch.len() == md.len() + 1);
    core::mem::forget(ch);
});

dproof!(d3_board_make, {
    let b = start_board(0);
    let ks: bool = kani::any();
    let m = if ks { M { kind: K_OO, cell: 2, src: 60, dst: 62 } } else { M { kind: K_OOO, cell: 2, src: 60, dst: 58 } };
    let r = b.make_move(mv_of(m));
    assert!(r.is_ok());
});

dproof!(d4_start_board, {
    let b = start_board(0);
    assert!(b.raw().move_number == 1);
});

dproof!(d5_push_and_model, {
    let (mut ch, md) = build(0, 0);
    let ks: bool = kani::any();
    let m = if ks { M { kind: K_OO, cell: 2, src: 60, dst: 62 } } else { M { kind: K_OOO, cell: 2, src: 60, dst: 58 } };
    let want = md.cur().make_move(mv_of(m));
    let r = ch.push(mv_of(m));
    assert!(r.is_ok() == want.is_ok());
    if let Ok(nb) = want {
        assert!(crate::c03::same_board(ch.last(), &nb));
    }
    core::mem::forget(ch);
});

dproof!(d6_push_pop, {
    let (mut ch, md) = build(0, 0);
    let ks: bool = kani::any();
    let m = if ks { M { kind: K_OO, cell: 2, src: 60, dst: 62 } } else { M { kind: K_OOO, cell: 2, src: 60, dst: 58 } };
    let r = ch.push(mv_of(m));
    assert!(r.is_ok());
    let got = ch.pop();
    assert!(got == Some(mv_of(m)));
    assert!(crate::c03::same_board(ch.last(), md.cur()));
    core::mem::forget(ch);
});

dproof!(d7_push_sym_result, {
    // push of a castling that may be refused (symbolic acceptance), then len / get
    let (mut ch, _md) = build(4, 0);
    let ks: bool = kani::any();
    let m = if ks { M { kind: K_OO, cell: 2, src: 60, dst: 62 } } else { M { kind: K_SIMPLE, cell: 2, src: 60, dst: 52 } };
    let r = ch.push(mv_of(m));
    assert!(r.is_ok() == !ks);
    assert!(ch.len() == (!ks) as usize);
    let got = ch.pop();
    assert!(got.is_some() == !ks);
    core::mem::forget(ch);
});

pub fn is_ascii_model(s: &str) -> bool {
    let b = s.as_bytes();
    let mut i = 0;
    let mut ok = true;
    while i < b.len() {
        if b[i] >= 0x80 {
            ok = false;
        }
        i += 1;
    }
    ok
}
pub fn memchr_model(x: u8, text: &[u8]) -> Option<usize> {
    let mut i = 0;
    while i < text.len() {
        if text[i] == x {
            return Some(i);
        }
        i += 1;
    }
    None
}

#[kani::proof]
#[kani::unwind(22)]
#[kani::stub(str::is_ascii, is_ascii_model)]
#[kani::stub(core::slice::memchr::memchr, memchr_model)]
fn d8_fen_end_stubbed() {
    let mut s = crate::src::KSrc;
    crate::c12::fen_board_end::<_, 5>(&mut s);
}

#[kani::proof]
#[kani::unwind(66)]
#[kani::stub(owlchess::attack::rook, crate::stubs::rook_stub)]
#[kani::stub(owlchess::attack::bishop, crate::stubs::bishop_stub)]
#[kani::stub(owlchess::legal::Checker::is_legal, crate::s6::is_legal_abs)]
fn d9_wiring_concrete() {
    // white: K h6, P d5, P g4 ; black: K d2, B f2, B b2 (white to move)
    let b = Board::from_fen_like();
    crate::s6::reset(owlchess::Move::NULL, false);
    let h = b.has_legal_moves();
    let first = unsafe { owlchess::verif::FIRST_LEGAL };
    let total = unsafe { crate::s6::ASKED_TOTAL };
    kani::cover!(h, "has move");
    kani::cover!(!h, "no move");
    if let Some(mv) = first {
        assert!(mv.src_cell().color() == Some(owlchess::Color::White), "first legal move is by a white man");
    }
    assert!(total <= 12, "asked at most 12 times");
}

trait FromFenLike {
    fn from_fen_like() -> Board;
}
impl FromFenLike for Board {
    fn from_fen_like() -> Board {
        use owlchess::{Cell, RawBoard};
        let mut r = RawBoard::empty();
        r.cells[23] = Cell::from_index(2);
        r.cells[27] = Cell::from_index(1);
        r.cells[38] = Cell::from_index(1);
        r.cells[51] = Cell::from_index(8);
        r.cells[53] = Cell::from_index(10);
        r.cells[49] = Cell::from_index(10);
        Board::try_from(r).unwrap()
    }
}

#[kani::proof]
#[kani::unwind(66)]
#[kani::stub(owlchess::attack::rook, crate::stubs::rook_stub)]
#[kani::stub(owlchess::attack::bishop, crate::stubs::bishop_stub)]
#[kani::stub(owlchess::legal::Checker::is_legal, crate::s6::is_legal_abs)]
fn d10_wiring_semi() {
    use owlchess::{Cell, RawBoard};
    let mut r = RawBoard::empty();
    r.cells[23] = Cell::from_index(2);
    let c27: u8 = kani::any();
    kani::assume(c27 <= 1);
    r.cells[27] = Cell::from_index(c27 as usize);
    r.cells[38] = Cell::from_index(1);
    r.cells[51] = Cell::from_index(8);
    r.cells[53] = Cell::from_index(10);
    r.cells[49] = Cell::from_index(10);
    let b = match Board::try_from(r) { Ok(b) => b, Err(_) => return };
    let p = pos_of(b.raw());
    let mut s = crate::src::KSrc;
    let t = any_m(&mut s);
    let ans: bool = kani::any();
    crate::s6::reset(mv_of(t), ans);
    let h = b.has_legal_moves();
    let t_candidate = semilegal_ref(&p, t) && t.kind != K_OO && t.kind != K_OOO;
    let asked = unsafe { crate::s6::T_ASKED };
    assert!(asked == 0 || t_candidate, "asked only about candidates");
    assert!(h || !(t_candidate && ans), "no move only if target rejected");
}
