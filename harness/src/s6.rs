//! S6: `legal::Checker::is_legal` replaced by an ABSTRACT legality predicate A.
//! A answers a fixed symbolic bit on a symbolic target move and an arbitrary bit elsewhere, and
//! logs what it was asked.  A property proved under S6 holds for EVERY legality predicate; what the
//! real predicate answers is C01's `prefiltered_legal_exact`.
use owlchess::verif::{Checker, Prechecker};
use owlchess::Move;

pub static mut T_MOVE: Option<Move> = None;
pub static mut T_ANS: bool = false;
pub static mut T_ASKED: u32 = 0;
pub static mut LAST_TRUE: Option<Move> = None;
pub static mut ASKED_TOTAL: u32 = 0;

pub fn reset(target: Move, ans: bool) {
    unsafe {
        T_MOVE = Some(target);
        T_ANS = ans;
        T_ASKED = 0;
        LAST_TRUE = None;
        ASKED_TOTAL = 0;
        owlchess::verif::FIRST_LEGAL = None;
    }
}

/// the stub (generic method: the impl's lifetime must be early-bound to match the generic count)
#[cfg(kani)]
pub fn is_legal_abs<'a, P: Prechecker>(_c: &Checker<'a, P>, mv: Move) -> bool
where
    'a: 'a,
{
    unsafe {
        ASKED_TOTAL += 1;
        let ans = if Some(mv) == T_MOVE {
            T_ASKED += 1;
            T_ANS
        } else {
            kani::any()
        };
        if ans {
            LAST_TRUE = Some(mv);
        }
        ans
    }
}
#[cfg(not(kani))]
pub fn is_legal_abs<'a, P: Prechecker>(c: &Checker<'a, P>, mv: Move) -> bool {
    c.is_legal(mv)
}
