//! The harness table: one line per harness = (name, stub set, unwind default, body).
//! Under Kani each line becomes a `#[kani::proof]`; natively it becomes an entry of `lookup`
//! used by the replay binary.

#[cfg(not(kani))]
pub type Body = fn(&mut crate::src::BSrc);

#[macro_export]
macro_rules! proof_decl {
    (none, $name:ident, $unwind:expr, $body:expr) => {
        #[cfg(kani)]
        #[kani::proof]
        #[kani::unwind($unwind)]
        fn $name() {
            let mut s = $crate::src::KSrc;
            $body(&mut s);
        }
    };
    (panics, $name:ident, $unwind:expr, $body:expr) => {
        #[cfg(kani)]
        #[kani::proof]
        #[kani::unwind($unwind)]
        #[kani::should_panic]
        fn $name() {
            let mut s = $crate::src::KSrc;
            $body(&mut s);
        }
    };
    // S1: ray walks for the slider look-ups
    (s1, $name:ident, $unwind:expr, $body:expr) => {
        #[cfg(kani)]
        #[kani::proof]
        #[kani::unwind($unwind)]
        #[kani::stub(owlchess::attack::rook, $crate::stubs::rook_stub)]
        #[kani::stub(owlchess::attack::bishop, $crate::stubs::bishop_stub)]
        fn $name() {
            let mut s = $crate::src::KSrc;
            $body(&mut s);
        }
    };
    // S1 + S2 (arbitrary from-scratch hash)
    (s12, $name:ident, $unwind:expr, $body:expr) => {
        #[cfg(kani)]
        #[kani::proof]
        #[kani::unwind($unwind)]
        #[kani::stub(owlchess::attack::rook, $crate::stubs::rook_stub)]
        #[kani::stub(owlchess::attack::bishop, $crate::stubs::bishop_stub)]
        #[kani::stub(owlchess::board::RawBoard::zobrist_hash, $crate::stubs::hash_stub)]
        fn $name() {
            let mut s = $crate::src::KSrc;
            $body(&mut s);
        }
    };
    // S5: Board::calc_outcome = harness-owned symbolic outcome
    (s5, $name:ident, $unwind:expr, $body:expr) => {
        #[cfg(kani)]
        #[kani::proof]
        #[kani::unwind($unwind)]
        #[kani::stub(owlchess::board::Board::calc_outcome, $crate::c14::calc_outcome_stub)]
        fn $name() {
            let mut s = $crate::src::KSrc;
            $body(&mut s);
        }
    };
    // S4: core::str::from_utf8 = reference automaton
    (s4, $name:ident, $unwind:expr, $body:expr) => {
        #[cfg(kani)]
        #[kani::proof]
        #[kani::unwind($unwind)]
        #[kani::stub(core::str::from_utf8, $crate::stubs::from_utf8_model)]
        fn $name() {
            let mut s = $crate::src::KSrc;
            $body(&mut s);
        }
    };
    // S4 + S7: from_utf8 and is_ascii = byte-level reference definitions
    (s47, $name:ident, $unwind:expr, $body:expr) => {
        #[cfg(kani)]
        #[kani::proof]
        #[kani::unwind($unwind)]
        #[kani::stub(core::str::from_utf8, $crate::stubs::from_utf8_model)]
        #[kani::stub(str::is_ascii, $crate::stubs::is_ascii_model)]
        fn $name() {
            let mut s = $crate::src::KSrc;
            $body(&mut s);
        }
    };
    // S1 + S3 (chains: real hash, has_legal_moves = harness-owned bool)
    (s13, $name:ident, $unwind:expr, $body:expr) => {
        #[cfg(kani)]
        #[kani::proof]
        #[kani::unwind($unwind)]
        #[kani::stub(owlchess::attack::rook, $crate::stubs::rook_stub)]
        #[kani::stub(owlchess::attack::bishop, $crate::stubs::bishop_stub)]
        #[kani::stub(owlchess::movegen::has_legal_moves, $crate::stubs::hlm_stub)]
        fn $name() {
            let mut s = $crate::src::KSrc;
            $body(&mut s);
        }
    };
    // S1 + S2 + S6 (legality filter = abstract predicate)
    (s126, $name:ident, $unwind:expr, $body:expr) => {
        #[cfg(kani)]
        #[kani::proof]
        #[kani::unwind($unwind)]
        #[kani::stub(owlchess::attack::rook, $crate::stubs::rook_stub)]
        #[kani::stub(owlchess::attack::bishop, $crate::stubs::bishop_stub)]
        #[kani::stub(owlchess::board::RawBoard::zobrist_hash, $crate::stubs::hash_stub)]
        #[kani::stub(owlchess::legal::Checker::is_legal, $crate::s6::is_legal_abs)]
        fn $name() {
            let mut s = $crate::src::KSrc;
            $body(&mut s);
        }
    };
    // S1 + S2 + S3 (has_legal_moves = harness-owned bool)
    (s123, $name:ident, $unwind:expr, $body:expr) => {
        #[cfg(kani)]
        #[kani::proof]
        #[kani::unwind($unwind)]
        #[kani::stub(owlchess::attack::rook, $crate::stubs::rook_stub)]
        #[kani::stub(owlchess::attack::bishop, $crate::stubs::bishop_stub)]
        #[kani::stub(owlchess::board::RawBoard::zobrist_hash, $crate::stubs::hash_stub)]
        #[kani::stub(owlchess::movegen::has_legal_moves, $crate::stubs::hlm_stub)]
        fn $name() {
            let mut s = $crate::src::KSrc;
            $body(&mut s);
        }
    };
}

macro_rules! harnesses {
    ( $( ($name:ident, $stubs:ident, $unwind:expr, $body:expr) ),* $(,)? ) => {
        $( proof_decl!($stubs, $name, $unwind, $body); )*

        #[cfg(not(kani))]
        pub fn lookup(name: &str) -> Option<Body> {
            $( if name == stringify!($name) { return Some(|s| $body(s)); } )*
            None
        }
        pub const NAMES: &[&str] = &[ $( stringify!($name) ),* ];
    };
}

#[allow(unused_imports)]
use crate::dom::*;
#[allow(unused_imports)]
use crate::c06::{G_ALL, G_CAPTURE, G_SIMPLE, G_SIMPLE_NO_PROMOTE, G_SIMPLE_PROMOTE};

include!("registry_table.rs");
