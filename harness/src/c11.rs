//! C11: validation accepts exactly the valid raw boards and normalises them consistently.
use crate::dom::*;
use crate::rules::*;
use crate::spec::*;
use crate::src::Src;
use owlchess::{board::ValidateError, Board, Color};

fn count(cells: &[u8; 64], pred: impl Fn(u8) -> bool) -> u32 {
    let mut n = 0;
    let mut i = 0;
    while i < 64 {
        if pred(cells[i]) {
            n += 1;
        }
        i += 1;
    }
    n
}

/// C11's acceptance conditions
pub fn validate_ref(p: &Pos) -> bool {
    let ep_ok = p.ep == NONE || (p.ep >> 3) == (if p.side == 0 { 3 } else { 4 });
    let men_ok = count(&p.cells, |c| color_of(c) == 0) <= 16 && count(&p.cells, |c| color_of(c) == 1) <= 16;
    let kings_ok = count(&p.cells, |c| c == mk(0, K)) == 1 && count(&p.cells, |c| c == mk(1, K)) == 1;
    let mut pawns_ok = true;
    let mut f = 0;
    while f < 8 {
        if piece_of(p.cells[f]) == P || piece_of(p.cells[56 + f]) == P {
            pawns_ok = false;
        }
        f += 1;
    }
    if !(ep_ok && men_ok && kings_ok && pawns_ok) {
        return false;
    }
    let k = find_king(&p.cells, 1 - p.side);
    !attacked_ref(&p.cells, k, p.side)
}

/// the only differences validation may introduce
pub fn normalise_ref(p: &Pos) -> Pos {
    let mut q = *p;
    if p.ep != NONE && (p.ep >> 3) == (if p.side == 0 { 3 } else { 4 }) {
        let behind = if p.side == 0 { p.ep - 8 } else { p.ep + 8 };
        if p.cells[p.ep as usize] != mk(1 - p.side, P) || p.cells[behind as usize] != EMPTY {
            q.ep = NONE;
        }
    }
    let mut c = 0u8;
    while c < 2 {
        let base = if c == 0 { 56 } else { 0 };
        if p.cells[base + 4] != mk(c, K) {
            q.castling &= !(3 << (c << 1));
        }
        if p.cells[base] != mk(c, R) {
            q.castling &= !(1 << (c << 1));
        }
        if p.cells[base + 7] != mk(c, R) {
            q.castling &= !(2 << (c << 1));
        }
        c += 1;
    }
    q
}

/// every raw board (no validity assumption)
/// PART: 0 = everything; 1 = acceptance + truthful errors; 2 = normal form, derived sets, stored hash; 3 = idempotence
pub fn validate_exact<S: Src, const SIDE: u8, const PART: u8>(s: &mut S) {
    crate::stubs::draw_hash_pool(s);
    let raw = any_raw(s, SIDE);
    let p = pos_of(&raw);
    let r = Board::try_from(raw);
    let want = validate_ref(&p);
    vnote!("raw fen={} accepted={} want={} err={:?}", raw.as_fen(), r.is_ok(), want, r.as_ref().err());
    if PART <= 1 {
        vassert!("accepted exactly when the validity conditions hold", r.is_ok() == want);
    }
    match r {
        Ok(b) if PART == 1 => {
            let _ = b;
        }
        Err(_) if PART >= 2 => {}
        Ok(b) if PART == 3 => {
            let r2 = Board::try_from(*b.raw());
            match r2 {
                Ok(b2) => vassert!("validating the result again changes nothing", b2.raw() == b.raw()
                    && b2.color(Color::White) == b.color(Color::White) && b2.color(Color::Black) == b.color(Color::Black)),
                Err(_) => vassert!("validating the result again succeeds", false),
            }
        }
        Ok(b) => {
            vassert!("result differs from the input only by the documented normalisation", pos_of(b.raw()) == normalise_ref(&p));
            let rebuilt = crate::c03::sets_rebuilt(s, &b);
            vassert!("derived sets of a validated board equal a rebuild from its squares", rebuilt);
            #[cfg(kani)]
            {
                // under S2 the stub recorded which raw board was hashed and what it answered
                let hashed = unsafe { crate::stubs::HASH_LAST_ARG };
                vassert!("stored hash is the from-scratch hash of the normalised raw board",
                    hashed == Some(*b.raw()) && b.zobrist_hash() == unsafe { crate::stubs::HASH_POOL[0] });
            }
            #[cfg(not(kani))]
            vassert!("stored hash is the from-scratch hash of the normalised raw board", b.zobrist_hash() == b.raw().zobrist_hash());
            if PART == 0 {
                let r2 = Board::try_from(*b.raw());
                match r2 {
                    Ok(b2) => vassert!("validating the result again changes nothing", b2.raw() == b.raw()
                        && b2.color(Color::White) == b.color(Color::White) && b2.color(Color::Black) == b.color(Color::Black)),
                    Err(_) => vassert!("validating the result again succeeds", false),
                }
            }
        }
        Err(ValidateError::TooManyPieces(c)) => {
            let ci = (c == Color::Black) as u8;
            vassert!("TooManyPieces is truthful", count(&p.cells, |x| color_of(x) == ci) > 16);
        }
        Err(ValidateError::NoKing(c)) => {
            let ci = (c == Color::Black) as u8;
            vassert!("NoKing is truthful", count(&p.cells, |x| x == mk(ci, K)) == 0);
        }
        Err(ValidateError::TooManyKings(c)) => {
            let ci = (c == Color::Black) as u8;
            vassert!("TooManyKings is truthful", count(&p.cells, |x| x == mk(ci, K)) > 1);
        }
        Err(ValidateError::InvalidPawn(sq)) => {
            let i = sq.index();
            vassert!("InvalidPawn is truthful", (i < 8 || i >= 56) && piece_of(p.cells[i]) == P);
        }
        Err(ValidateError::InvalidEnpassant(sq)) => {
            vassert!("InvalidEnpassant is truthful", p.ep == sq.index() as u8 && (p.ep >> 3) != (if p.side == 0 { 3 } else { 4 }));
        }
        Err(ValidateError::OpponentKingAttacked) => {
            let k = find_king(&p.cells, 1 - p.side);
            vassert!("OpponentKingAttacked is truthful", k != NONE && attacked_ref(&p.cells, k, p.side));
        }
    }
    vcover!("accepted with a right dropped", want && normalise_ref(&p).castling != p.castling);
    vcover!("accepted with the e.p. mark dropped", want && normalise_ref(&p).ep != p.ep);
    vcover!("accepted with the e.p. mark kept", want && p.ep != NONE && normalise_ref(&p).ep == p.ep);
    vcover!("rejected: opponent king attacked only", !want && count(&p.cells, |c| c == mk(0, K)) == 1 && count(&p.cells, |c| c == mk(1, K)) == 1
        && count(&p.cells, |c| color_of(c) == 0) <= 16 && count(&p.cells, |c| color_of(c) == 1) <= 16);
    vcover!("sixteen men each", want && count(&p.cells, |c| color_of(c) == 0) == 16 && count(&p.cells, |c| color_of(c) == 1) == 16);
}
