//! C16: attack and check queries agree with the rules on every position.
use crate::dom::*;
use crate::rules::*;
use crate::spec::*;
use crate::src::Src;
use owlchess::{movegen, Color, Coord};

/// FULL x 64 squares, attackers of colour BY
pub fn attackers_exact<S: Src, const SIDE: u8, const BY: u8>(s: &mut S) {
    crate::stubs::draw_hash_pool(s);
    let b = match any_board(s, SIDE) {
        Some(b) => b,
        None => return,
    };
    let p = pos_of(b.raw());
    let sq = s.below(64);
    let col = if BY == 1 { Color::Black } else { Color::White };
    let c = Coord::from_index(sq as usize);
    let got = movegen::cell_attackers(&b, c, col).as_raw();
    let want = attackers_ref(&p.cells, sq, BY);
    vnote!("fen={} sq={} by={} got={:#x} want={:#x}", b.as_fen(), sq, BY, got, want);
    vassert!("attackers query = men that could capture there", got == want);
    vassert!("is-attacked query = (attackers non-empty)", movegen::is_cell_attacked(&b, c, col) == (want != 0));
    vcover!("two or more attackers", want.count_ones() >= 2);
    vcover!("no attacker", want == 0);
    vcover!("a queen attacking along a line from a distance", want != 0 && {
        let a = want.trailing_zeros() as u8;
        piece_of(p.cells[a as usize]) == Q && ((a & 7) == (sq & 7) || (a >> 3) == (sq >> 3)) && (a as i8 - sq as i8).abs() > 1
    });
    vcover!("a pawn attacker on the seventh rank", want != 0 && piece_of(p.cells[want.trailing_zeros() as usize]) == P && (want.trailing_zeros() >> 3) == if BY == 0 { 1 } else { 6 });
}

/// FULL: check queries against the same definition applied to the kings' squares
pub fn check_queries_exact<S: Src, const SIDE: u8>(s: &mut S) {
    crate::stubs::draw_hash_pool(s);
    let b = match any_board(s, SIDE) {
        Some(b) => b,
        None => return,
    };
    let p = pos_of(b.raw());
    let k = find_king(&p.cells, p.side);
    let chk = attackers_ref(&p.cells, k, 1 - p.side);
    vnote!("fen={} is_check={} checkers={:#x} rules: {:#x}", b.as_fen(), b.is_check(), b.checkers().as_raw(), chk);
    vassert!("is_check = own king attacked", b.is_check() == (chk != 0));
    vassert!("checkers = attackers of own king", b.checkers().as_raw() == chk);
    let ok = find_king(&p.cells, 1 - p.side);
    vassert!("opponent-king-attacked query exact (never on a valid position)", b.is_opponent_king_attacked() == (attackers_ref(&p.cells, ok, p.side) != 0));
    vcover!("double check", chk.count_ones() >= 2);
    vcover!("not in check", chk == 0);
    vcover!("check by a queen along a line", chk != 0 && piece_of(p.cells[chk.trailing_zeros() as usize]) == Q && ((chk.trailing_zeros() as u8 & 7) == (k & 7) || (chk.trailing_zeros() as u8 >> 3) == (k >> 3)));
}
