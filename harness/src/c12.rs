//! C12: every text parser is total; returned values re-format to text that parses back.
use crate::dom::*;
use crate::src::Src;
use owlchess::moves::san;
use owlchess::types::{CastlingRights, Cell, Color, Coord};
use owlchess::{Board, RawBoard};
use std::str::FromStr;

fn str_of<const N: usize>(buf: &[u8; N], len: usize) -> &str {
    unsafe { core::str::from_utf8_unchecked(&buf[..len]) }
}

/// squares: every UTF-8 string of <= 4 bytes
pub fn coord_parse<S: Src>(s: &mut S) {
    let (buf, len) = any_str::<S, 4>(s);
    vassume!(utf8_ok(&buf, len));
    let r = Coord::from_str(str_of(&buf, len));
    let shape = len == 2 && buf[0] >= b'a' && buf[0] <= b'h' && buf[1] >= b'1' && buf[1] <= b'8';
    vassert!("Coord text accepted exactly for [a-h][1-8]", r.is_ok() == shape);
    if let Ok(c) = r {
        vassert!("Coord text denotes that square", c.index() == ((b'8' - buf[1]) as usize) * 8 + (buf[0] - b'a') as usize);
    }
    vcover!("accepted", r.is_ok());
    vcover!("two-byte non-ASCII character rejected", r.is_err() && len == 2 && buf[0] >= 0xC2);
}
/// ... and every square formats to text that parses back (core::fmt)
pub fn coord_roundtrip<S: Src>(s: &mut S) {
    let c = Coord::from_index(s.below(64) as usize);
    let t = c.to_string();
    vassert!("Coord text round trip", Coord::from_str(&t) == Ok(c) && t.len() == 2);
}

pub fn color_parse<S: Src>(s: &mut S) {
    let (buf, len) = any_str::<S, 3>(s);
    vassume!(utf8_ok(&buf, len));
    let r = Color::from_str(str_of(&buf, len));
    vassert!("Color text accepted exactly for w / b", r.is_ok() == (len == 1 && (buf[0] == b'w' || buf[0] == b'b')));
    if let Ok(c) = r {
        vassert!("Color text denotes that colour", (c == Color::White) == (buf[0] == b'w'));
        vassert!("Color text round trip", Color::from_str(&c.to_string()) == Ok(c));
    }
    vcover!("accepted", r.is_ok());
}

pub fn cell_parse<S: Src>(s: &mut S) {
    let (buf, len) = any_str::<S, 3>(s);
    vassume!(utf8_ok(&buf, len));
    let r = Cell::from_str(str_of(&buf, len));
    const SPELL: [u8; 13] = *b".PKNBRQpknbrq";
    let mut want: Option<usize> = None;
    let mut i = 0;
    while i < 13 {
        if len == 1 && buf[0] == SPELL[i] {
            want = Some(i);
        }
        i += 1;
    }
    vassert!("Cell text accepted exactly for one of .PKNBRQpknbrq", r.is_ok() == want.is_some());
    if let Ok(c) = r {
        vassert!("Cell text denotes that cell", Some(c.index()) == want);
        vassert!("Cell text round trip", Cell::from_str(&c.to_string()) == Ok(c));
    }
    vcover!("accepted", r.is_ok());
}

pub fn castling_parse<S: Src>(s: &mut S) {
    let (buf, len) = any_str::<S, 6>(s);
    vassume!(utf8_ok(&buf, len));
    let r = CastlingRights::from_str(str_of(&buf, len));
    // reference: "-" or a non-empty string over KQkq without repetition (any order)
    let mut mask = 0u8;
    let mut ok = len > 0;
    let mut i = 0;
    while i < 6 {
        if i < len {
            let bit = match buf[i] {
                b'K' => 2u8,
                b'Q' => 1,
                b'k' => 8,
                b'q' => 4,
                _ => 0,
            };
            if bit == 0 || mask & bit != 0 {
                ok = false;
            }
            mask |= bit;
        }
        i += 1;
    }
    let dash = len == 1 && buf[0] == b'-';
    vassert!("castling field accepted exactly for '-' or distinct letters of KQkq", r.is_ok() == (dash || ok));
    if let Ok(c) = r {
        vassert!("castling field denotes that set of rights", c.index() as u8 == if dash { 0 } else { mask });
    }
    vcover!("all four rights in unusual order", r.is_ok() && len == 4 && buf[0] == b'q');
    vcover!("duplicate letter rejected", r.is_err() && len == 2 && buf[0] == buf[1] && buf[0] == b'K');
}
pub fn castling_roundtrip<S: Src>(s: &mut S) {
    let c = CastlingRights::from_index(s.below(16) as usize);
    let t = c.to_string();
    vassert!("castling field round trip", CastlingRights::from_str(&t) == Ok(c));
}

/// SAN: every UTF-8 string of <= N bytes: the parser returns (no panic)
pub fn san_parse_total<S: Src, const N: usize>(s: &mut S) {
    let (buf, len) = any_str::<S, N>(s);
    vassume!(utf8_ok(&buf, len));
    let st = str_of(&buf, len);
    let r = san::Move::from_str(st);
    vnote!("text={:?} parsed={:?}", st, r);
    vassert!("empty text is an error", len != 0 || r.is_err());
    vcover!("accepted piece move", matches!(r, Ok(san::Move { data: san::Data::Simple { .. }, .. })));
    vcover!("accepted castling", matches!(r, Ok(san::Move { data: san::Data::Castling(_), .. })));
    vcover!("rejected non-ASCII", r.is_err() && len >= 2 && buf[0] >= 0x80);
    vcover!("piece letter with too few bytes", r.is_err() && len == 2 && buf[0] == b'N');
}

/// FEN family (a): the board field alone (no further fields): drives `parse_cells` to the end
pub fn fen_board_field<S: Src, const N: usize>(s: &mut S) {
    let (buf, len) = any_str::<S, N>(s);
    vassume!(utf8_ok(&buf, len));
    let mut i = 0;
    let mut no_space = true;
    while i < N {
        if i < len && buf[i] == b' ' {
            no_space = false;
        }
        i += 1;
    }
    vassume!(no_space);
    let st = str_of(&buf, len);
    let r = RawBoard::from_str(st);
    vnote!("fen text={:?} -> {:?}", st, r.as_ref().err());
    vassert!("a FEN record without a side-to-move field is an error", r.is_err());
    vcover!("eight complete ranks parsed (needs 15 bytes)", N < 15 || matches!(r, Err(owlchess::board::RawFenParseError::NoMoveSide)));
    vcover!("not enough ranks", matches!(r, Err(owlchess::board::RawFenParseError::Board(owlchess::board::CellsParseError::Underflow))));
    vcover!("non-ASCII", matches!(r, Err(owlchess::board::RawFenParseError::NonAscii)));
}

/// FEN family (b): a fixed board field followed by <= N symbolic bytes (side, rights, e.p., counters)
pub fn fen_tail<S: Src, const N: usize>(s: &mut S) {
    let (buf, len) = any_str::<S, N>(s);
    vassume!(utf8_ok(&buf, len));
    let mut full = [0u8; 40];
    let head = b"4k3/8/8/8/8/8/8/4K3";
    let mut i = 0;
    while i < head.len() {
        full[i] = head[i];
        i += 1;
    }
    let mut j = 0;
    while j < N {
        if j < len {
            full[head.len() + j] = buf[j];
        }
        j += 1;
    }
    let st = unsafe { core::str::from_utf8_unchecked(&full[..head.len() + len]) };
    let r = RawBoard::from_str(st);
    vnote!("fen text={:?} -> {:?}", st, r);
    if let Ok(raw) = r {
        vassert!("accepted FEN tail starts with a space", len >= 6 && buf[0] == b' ');
        let b = Board::try_from(raw);
        vassert!("an accepted record over this board field is a valid position", b.is_ok());
    }
    vcover!("accepted", r.is_ok());
    vcover!("accepted with an e.p. square", matches!(r, Ok(RawBoard { ep_source: Some(_), .. })));
}

/// FEN family (c): seven complete ranks "8/8/8/8/8/8/8/" followed by <= N symbolic bytes (no space):
/// the end of the board field - eighth rank, rank overflow / underflow, a ninth rank
pub fn fen_board_end<S: Src, const N: usize>(s: &mut S) {
    let (buf, len) = any_str::<S, N>(s);
    vassume!(utf8_ok(&buf, len));
    let mut full = [0u8; 32];
    let head = b"8/8/8/8/8/8/8/";
    let mut i = 0;
    while i < head.len() {
        full[i] = head[i];
        i += 1;
    }
    let mut j = 0;
    let mut no_space = true;
    while j < N {
        if j < len {
            full[head.len() + j] = buf[j];
            if buf[j] == b' ' {
                no_space = false;
            }
        }
        j += 1;
    }
    vassume!(no_space);
    let st = unsafe { core::str::from_utf8_unchecked(&full[..head.len() + len]) };
    let r = RawBoard::from_str(st);
    vnote!("fen text={:?} -> {:?}", st, r.as_ref().err());
    vassert!("a FEN record without a side-to-move field is an error", r.is_err());
    vcover!("eight complete ranks parsed", matches!(r, Err(owlchess::board::RawFenParseError::NoMoveSide)));
    vcover!("too many ranks", matches!(r, Err(owlchess::board::RawFenParseError::Board(owlchess::board::CellsParseError::Overflow))));
    vcover!("rank overflow", matches!(r, Err(owlchess::board::RawFenParseError::Board(owlchess::board::CellsParseError::RankOverflow(_)))));
}
