//! C09: SAN at the level of the structured value (`san::Move` / `san::Data`).
use crate::dom::*;
use crate::rules::*;
use crate::spec::*;
use crate::src::Src;
use owlchess::moves::san::{self, CheckMark, Data, IntoMoveError};
use owlchess::moves::uci;
use owlchess::{CastlingSide, Coord, File, Piece, Rank};

fn piece_idx(p: Piece) -> u8 {
    p.index() as u8
}

pub const V_UCI: u8 = 0;
pub const V_CASTLING: u8 = 1;
pub const V_PAWN_MOVE: u8 = 2;
pub const V_PAWN_CAPTURE: u8 = 3;
pub const V_PAWN_SHORT: u8 = 4;
pub const V_SIMPLE: u8 = 5;

fn any_data<S: Src>(s: &mut S, variant: u8) -> Data {
    let dst = Coord::from_index(s.below(64) as usize);
    let promote = crate::c10::promote_of(s.below(5));
    let f1 = File::from_index(s.below(8) as usize);
    let f2 = File::from_index(s.below(8) as usize);
    match variant {
        V_UCI => {
            let src = Coord::from_index(s.below(64) as usize);
            Data::Uci(if s.bool() { uci::Move::Null } else { uci::Move::Move { src, dst, promote } })
        }
        V_CASTLING => Data::Castling(if s.bool() { CastlingSide::King } else { CastlingSide::Queen }),
        V_PAWN_MOVE => Data::PawnMove { dst, promote },
        V_PAWN_CAPTURE => Data::PawnCapture { src: f1, dst, promote },
        V_PAWN_SHORT => Data::PawnCaptureShort { src: f1, dst: f2, promote },
        _ => {
            let piece = Piece::from_index(s.below(6) as usize);
            let file = if s.bool() { Some(f1) } else { None };
            let rank = if s.bool() { Some(Rank::from_index(s.below(8) as usize)) } else { None };
            Data::Simple { piece, file, rank, is_capture: s.bool(), dst }
        }
    }
}

fn promo_kind(p: Option<owlchess::moves::PromotePiece>) -> Option<u8> {
    use owlchess::moves::PromotePiece::*;
    match p {
        None => None,
        Some(Knight) => Some(K_PN),
        Some(Bishop) => Some(K_PB),
        Some(Rook) => Some(K_PR),
        Some(Queen) => Some(K_PQ),
    }
}

/// does move `m` (a move of the side to move in `p`) agree with what the SAN value writes?
pub fn agrees(p: &Pos, d: &Data, m: M) -> bool {
    let us = p.side;
    let pc = piece_of(m.cell);
    let base = if us == 0 { 56u8 } else { 0 };
    match *d {
        Data::Uci(uci::Move::Null) => false,
        Data::Uci(uci::Move::Move { src, dst, promote }) => {
            m.src == src.index() as u8 && m.dst == dst.index() as u8 && (promo_kind(promote) == if m.kind >= K_PN { Some(m.kind) } else { None })
        }
        Data::Castling(CastlingSide::King) => m.kind == K_OO && m.src == base + 4,
        Data::Castling(CastlingSide::Queen) => m.kind == K_OOO && m.src == base + 4,
        Data::PawnMove { dst, promote } => {
            pc == P && m.dst == dst.index() as u8 && (m.src & 7) == (m.dst & 7) && (m.kind == K_SIMPLE || m.kind == K_DOUBLE || m.kind >= K_PN)
                && (promo_kind(promote) == if m.kind >= K_PN { Some(m.kind) } else { None })
        }
        Data::PawnCapture { src, dst, promote } => {
            pc == P && m.dst == dst.index() as u8 && (m.src & 7) == src.index() as u8 && (m.src & 7) != (m.dst & 7)
                && (m.kind == K_SIMPLE || m.kind == K_EP || m.kind >= K_PN)
                && (promo_kind(promote) == if m.kind >= K_PN { Some(m.kind) } else { None })
        }
        Data::PawnCaptureShort { src, dst, promote } => {
            pc == P && (m.dst & 7) == dst.index() as u8 && (m.src & 7) == src.index() as u8 && (m.src & 7) != (m.dst & 7)
                && (m.kind == K_SIMPLE || m.kind == K_EP || m.kind >= K_PN)
                && (promo_kind(promote) == if m.kind >= K_PN { Some(m.kind) } else { None })
        }
        Data::Simple { piece, file, rank, is_capture, dst } => {
            piece != Piece::Pawn && pc == piece_idx(piece) && m.kind == K_SIMPLE && m.dst == dst.index() as u8
                && (match file { Some(f) => (m.src & 7) == f.index() as u8, None => true })
                && (match rank { Some(r) => (m.src >> 3) == r.index() as u8, None => true })
                && (!is_capture || p.cells[m.dst as usize] != 0)
        }
    }
}

/// soundness and uniqueness of `into_move` for every SAN value of one variant.
/// K bounds the mover's men per kind (GEN(K)) for the variants that search candidates.
pub fn san_into_move_sound<S: Src, const SIDE: u8, const VARIANT: u8, const K: u32>(s: &mut S) {
    crate::stubs::draw_hash_pool(s);
    let b = match any_board(s, SIDE) {
        Some(b) => b,
        None => return,
    };
    if K < 16 {
        vassume!(gen_bound(&b, K));
    }
    let p = pos_of(b.raw());
    let d = any_data(s, VARIANT);
    // a symbolic "other" move of the side to move: stands for every legal move at once
    let t = any_m(s);
    let t_matches = t.cell != 0 && color_of(t.cell) == p.side && agrees(&p, &d, t) && legal_ref(&p, t);
    let r = d.into_move(&b);
    vnote!("fen={} san value={:?} -> {:?}; probe move {:?} matches+legal={}", b.as_fen(), d, r, mv_of(t), t_matches);
    match r {
        Ok(mv) => {
            let m = m_of(mv);
            vassert!("SAN input resolves only to a legal move", legal_ref(&p, m));
            vassert!("the move agrees with piece, destination, origin hints and promotion written", agrees(&p, &d, m));
            vassert!("no other legal move agrees with the text (else ambiguity must be reported)", !t_matches || t == m);
        }
        Err(IntoMoveError::Ambiguity(a, c)) => {
            let (ma, mc) = (m_of(a), m_of(c));
            vassert!("ambiguity is reported only for two different legal moves that both agree", ma != mc && legal_ref(&p, ma) && legal_ref(&p, mc) && agrees(&p, &d, ma) && agrees(&p, &d, mc));
        }
        Err(_) => {
            vassert!("a SAN value that denotes a legal move is not refused", !t_matches);
        }
    }
    vcover!("resolved", r.is_ok());
    vcover!("refused although a semilegal move agrees", r.is_err() && t.cell != 0 && color_of(t.cell) == p.side && agrees(&p, &d, t) && semilegal_ref(&p, t));
}

/// `san::Move::from_move` for legal moves that need no candidate search (pawn moves, castling)
/// and, with K, for piece moves: fields + check mark (S3: `#` iff check and the probe says no move)
pub fn san_from_move<S: Src, const SIDE: u8, const KG: u8, const K: u32>(s: &mut S) {
    crate::stubs::draw_hash_pool(s);
    let b = match any_board(s, SIDE) {
        Some(b) => b,
        None => return,
    };
    if K < 16 {
        vassume!(gen_bound(&b, K));
    }
    let p = pos_of(b.raw());
    let m = any_m_g::<S, SIDE, KG>(s);
    vassume!(legal_ref(&p, m));
    #[cfg(kani)]
    let h = {
        let h = s.bool();
        unsafe { crate::stubs::HLM = h };
        h
    };
    let mv = mv_of(m);
    let r = san::Move::from_move(mv, &b);
    let sm = match r {
        Ok(x) => x,
        Err(_) => {
            vassert!("a legal move has a SAN value", false);
            return;
        }
    };
    let q = apply_ref(&p, m);
    #[cfg(not(kani))]
    let h = {
        let _ = s.bool();
        b.make_move(mv).map(|x| x.has_legal_moves()).unwrap_or(true)
    };
    let chk = in_check_ref(&q);
    let want_mark = if !chk { None } else if h { Some(CheckMark::Single) } else { Some(CheckMark::Checkmate) };
    vnote!("fen={} move={:?} san={:?}", b.as_fen(), mv, sm);
    vassert!("check mark: '+' iff the move gives check, '#' iff it gives check and leaves no legal move", sm.check == want_mark);
    vassert!("the SAN value agrees with the move it was made from", agrees(&p, &sm.data, m));
    let pc = piece_of(m.cell);
    let target = p.cells[m.dst as usize];
    match sm.data {
        Data::Castling(sd) => vassert!("castling symbol", (m.kind == K_OO && sd == CastlingSide::King) || (m.kind == K_OOO && sd == CastlingSide::Queen)),
        Data::PawnMove { dst, promote } => vassert!("pawn push: destination and promotion suffix",
            pc == P && (m.src & 7) == (m.dst & 7) && dst.index() as u8 == m.dst && promo_kind(promote) == if m.kind >= K_PN { Some(m.kind) } else { None }),
        Data::PawnCapture { src, dst, promote } => vassert!("pawn capture (incl. e.p.): origin file, destination, promotion suffix",
            pc == P && (m.src & 7) != (m.dst & 7) && src.index() as u8 == (m.src & 7) && dst.index() as u8 == m.dst
            && (target != 0 || m.kind == K_EP) && promo_kind(promote) == if m.kind >= K_PN { Some(m.kind) } else { None }),
        Data::Simple { piece, file, rank, is_capture, dst } => {
            vassert!("piece letter, destination and capture mark", pc != P && piece_idx(piece) == pc && dst.index() as u8 == m.dst && is_capture == (target != 0));
            // disambiguation among LEGAL moves only: a symbolic other move stands for all of them
            let t = any_m(s);
            let other = t != m && t.kind == K_SIMPLE && t.cell == m.cell && t.dst == m.dst && legal_ref(&p, t);
            if other {
                vassert!("another legal move of the same kind of piece to that square forces a disambiguation", file.is_some() || rank.is_some());
                vassert!("the written origin hints exclude every other such move", !((match file { Some(f) => (t.src & 7) == f.index() as u8, None => true })
                    && (match rank { Some(r) => (t.src >> 3) == r.index() as u8, None => true })));
                vassert!("file alone is written only if no other candidate shares the file", !(file.is_some() && rank.is_none() && (t.src & 7) == (m.src & 7)));
            }
            if let Some(f) = file {
                vassert!("origin file hint is the mover's file", f.index() as u8 == (m.src & 7));
            }
            if let Some(rk) = rank {
                vassert!("origin rank hint is the mover's rank", rk.index() as u8 == (m.src >> 3));
            }
            if K == 1 {
                vassert!("no disambiguation when the mover is the only man of its kind", file.is_none() && rank.is_none());
            }
        }
        _ => vassert!("a real move is never written as a raw UCI value", false),
    }
    // parsing the value back in the same position returns the same move
    let back = sm.into_move(&b);
    vassert!("the SAN value resolves back to the same move", back == Ok(mv));
    vcover!("gives check", chk);
    vcover!("a disambiguated piece move (piece groups with two men)", !(K == 2) || matches!(sm.data, Data::Simple { file: Some(_), .. }) || matches!(sm.data, Data::Simple { rank: Some(_), .. }));
    vcover!("mate mark", chk && !h);
}

/// `Data::Simple` naming a pawn is refused with an error on a concrete position, for every other field value
pub fn san_simple_pawn_refused<S: Src>(s: &mut S) {
    let b = owlchess::Board::initial();
    let file = if s.bool() { Some(File::from_index(s.below(8) as usize)) } else { None };
    let rank = if s.bool() { Some(Rank::from_index(s.below(8) as usize)) } else { None };
    // destination fixed (e4): the refusal does not depend on it, and a symbolic destination drags the candidate
    // search (13 GB) into a query about a guard that precedes it
    let d = Data::Simple { piece: Piece::Pawn, file, rank, is_capture: s.bool(), dst: Coord::from_index(36) };
    let r = d.into_move(&b);
    vassert!("a SAN piece-move value naming a pawn is refused with an error (no panic)", r.is_err());
    let mut bc = b.clone();
    let rr = owlchess::Make::make_raw(&san::Move { data: d, check: None }, &mut bc);
    vassert!("... also through the Make entry point, leaving the position unchanged", rr.is_err() && crate::c03::same_board(&bc, &b));
    vcover!("with origin hints", file.is_some() && rank.is_some());
}
