//! C02: one step of every safe entry point from an arbitrary valid position.
use crate::c03::{same_board, sets_rebuilt};
use crate::c11::{normalise_ref, validate_ref};
use crate::dom::*;
use crate::rules::*;
use crate::src::Src;
use owlchess::{Board, Cell, Make};

/// `Move` through `Board::make_move` (the cloning entry point): accepted iff legal; the successor is valid
pub fn make_move_step<S: Src, const SIDE: u8, const KG: u8, const DIRECT: bool>(s: &mut S) {
    crate::stubs::draw_hash_pool(s);
    let b = match any_board(s, SIDE) {
        Some(b) => b,
        None => return,
    };
    let p = pos_of(b.raw());
    let m = any_m_g::<S, SIDE, KG>(s);
    vassume!(wf_ref(m));
    let mv = mv_of(m);
    let want = legal_ref(&p, m);
    let r = b.make_move(mv);
    vnote!("fen={} move={:?} accepted={} legal={} after={:?}", b.as_fen(), mv, r.is_ok(), want, r.as_ref().ok().map(|x| x.as_fen()));
    vassert!("a move is accepted exactly when it is legal", r.is_ok() == want);
    if let Ok(b2) = r {
        let q = pos_of(b2.raw());
        // by C11 (validation exact): re-validation succeeds iff validate_ref, and reproduces the
        // position identically iff normalisation changes nothing and the derived state is a rebuild
        vassert!("the resulting position is valid (re-validation would succeed)", validate_ref(&q));
        vassert!("re-validation would reproduce it identically (nothing to normalise)", normalise_ref(&q) == q);
        let rebuilt = sets_rebuilt(s, &b2);
        vassert!("derived sets of the result equal a rebuild", rebuilt);
        let k = find_king(&q.cells, p.side);
        vassert!("the side that has just moved is not left in check", !attacked_ref(&q.cells, k, 1 - p.side));
        if DIRECT {
            match Board::try_from(*b2.raw()) {
                Ok(b3) => vassert!("re-validating the raw contents reproduces the position", b3.raw() == b2.raw()
                    && b3.color(owlchess::Color::White) == b2.color(owlchess::Color::White)
                    && b3.color(owlchess::Color::Black) == b2.color(owlchess::Color::Black)),
                Err(_) => vassert!("re-validating the raw contents succeeds", false),
            }
        }
    }
    vcover!("accepted (own men)", KG == KG_FOREIGN || want);
    vcover!("refused: semilegal but leaves the king attacked (own men)", KG == KG_FOREIGN || (!want && semilegal_ref(&p, m)));
    vcover!("refused: not semilegal", !semilegal_ref(&p, m));
}

/// `Make::make_raw` (the in-place entry point used by chains): accepted iff legal; on acceptance the
/// board holds the prescribed position; on refusal every field is exactly as it was
pub fn make_raw_step<S: Src, const SIDE: u8, const KG: u8>(s: &mut S) {
    crate::stubs::draw_hash_pool(s);
    let b = match any_board(s, SIDE) {
        Some(b) => b,
        None => return,
    };
    let p = pos_of(b.raw());
    let m = any_m_g::<S, SIDE, KG>(s);
    vassume!(wf_ref(m));
    let mv = mv_of(m);
    let want = legal_ref(&p, m);
    let mut bc = b.clone();
    let rr = mv.make_raw(&mut bc);
    vnote!("fen={} move={:?} accepted={} legal={} board afterwards={}", b.as_fen(), mv, rr.is_ok(), want, bc.as_fen());
    vassert!("the in-place entry point accepts exactly the legal moves", rr.is_ok() == want);
    match rr {
        Ok((mv2, _)) => {
            vassert!("the applied move is the move given", mv2 == mv);
            vassert!("on acceptance the board holds the position the rules prescribe", pos_of(bc.raw()) == apply_ref(&p, m));
            let rebuilt = sets_rebuilt(s, &bc);
            vassert!("derived sets of the result equal a rebuild", rebuilt);
        }
        Err(_) => {
            vassert!("a refused move leaves the position exactly as it was", same_board(&bc, &b));
            let pc = s.below(13);
            vassert!("a refused move leaves every per-piece set as it was", bc.piece(Cell::from_index(pc as usize)) == b.piece(Cell::from_index(pc as usize)));
        }
    }
    vcover!("accepted (own men)", KG == KG_FOREIGN || want);
    vcover!("refused after being applied and rolled back (own men)", KG == KG_FOREIGN || (!want && semilegal_ref(&p, m)));
    vcover!("refused without being applied", !semilegal_ref(&p, m));
}
