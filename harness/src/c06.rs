//! C06: well-formedness, semilegal validation and semilegal generation agree with the rules.
use crate::dom::*;
use crate::rules::*;
use crate::src::Src;
use owlchess::movegen::semilegal;
use owlchess::{Move, MovePush};

/// all 532 480 tuples: `is_well_formed` / `Move::new` = geometric possibility
pub fn wellformed_exact<S: Src>(s: &mut S) {
    let m = any_m(s);
    let mv = mv_of(m);
    let want = wf_ref(m);
    vassert!("is_well_formed = geometrically possible for that kind", mv.is_well_formed() == want);
    let r = Move::new(kind_of(m.kind), mv.src_cell(), mv.src(), mv.dst());
    vassert!("Move::new accepts exactly the well-formed tuples", r.is_ok() == want);
    if let Ok(x) = r {
        vassert!("Move::new returns the tuple it was given", x == mv);
    }
    vcover!("well-formed castling", want && m.kind == K_OO);
    vcover!("well-formed en passant", want && m.kind == K_EP);
    vcover!("ill-formed promotion", !want && m.kind == K_PQ);
    vcover!("well-formed null", want && m.kind == K_NULL);
}

/// FULL x all well-formed moves of one kind group: `is_semilegal` = pseudo-legal by the rules
pub fn semilegal_validator_exact<S: Src, const SIDE: u8, const KG: u8>(s: &mut S) {
    crate::stubs::draw_hash_pool(s);
    let b = match any_board(s, SIDE) {
        Some(b) => b,
        None => return,
    };
    let p = pos_of(b.raw());
    let m = any_m_g::<S, SIDE, KG>(s);
    vassume!(wf_ref(m));
    let mv = mv_of(m);
    let want = semilegal_ref(&p, m);
    let got = mv.is_semilegal(&b);
    vnote!("fen={} move={:?} got={} want={}", b.as_fen(), mv, got, want);
    vassert!("is_semilegal = pseudo-legal by the rules", got == want);
    vassert!("semi_validate agrees with is_semilegal", mv.semi_validate(&b).is_ok() == got);
    vcover!("a semilegal move (own men)", KG == KG_FOREIGN || want);
    vcover!("a well-formed move that is not semilegal", !want);
}

pub struct Sink {
    pub target: Move,
    pub count: u32,
    pub total: u32,
    pub bad_cell: bool,
}
impl Sink {
    pub fn new(target: Move) -> Self {
        Sink { target, count: 0, total: 0, bad_cell: false }
    }
}
impl MovePush for Sink {
    fn push(&mut self, m: Move) {
        if m == self.target {
            self.count += 1;
        }
        self.total += 1;
    }
}

pub const G_ALL: u8 = 0;
pub const G_CAPTURE: u8 = 1;
pub const G_SIMPLE: u8 = 2;
pub const G_SIMPLE_NO_PROMOTE: u8 = 3;
pub const G_SIMPLE_PROMOTE: u8 = 4;

/// class of a semilegal move: capture = destination occupied or en passant
pub fn class_ref(p: &Pos, m: M, g: u8) -> bool {
    let capture = p.cells[m.dst as usize] != 0 || m.kind == K_EP;
    let promote = m.kind >= K_PN;
    match g {
        G_ALL => true,
        G_CAPTURE => capture,
        G_SIMPLE => !capture,
        G_SIMPLE_NO_PROMOTE => !capture && !promote,
        _ => !capture && promote,
    }
}

/// GEN(K) on FULL: the generator pushes the symbolic target exactly (spec as 0/1) times
pub fn semilegal_gen_exact<S: Src, const SIDE: u8, const G: u8, const KP: u32, const KN: u32>(s: &mut S) {
    crate::stubs::draw_hash_pool(s);
    let b = match any_board(s, SIDE) {
        Some(b) => b,
        None => return,
    };
    vassume!(gen_bound2(&b, KP, KN));
    let p = pos_of(b.raw());
    let m = any_m(s);
    let mut sink = Sink::new(mv_of(m));
    match G {
        G_ALL => semilegal::gen_all_into(&b, &mut sink),
        G_CAPTURE => semilegal::gen_capture_into(&b, &mut sink),
        G_SIMPLE => semilegal::gen_simple_into(&b, &mut sink),
        G_SIMPLE_NO_PROMOTE => semilegal::gen_simple_no_promote_into(&b, &mut sink),
        _ => semilegal::gen_simple_promote_into(&b, &mut sink),
    }
    let want = semilegal_ref(&p, m) && class_ref(&p, m, G);
    vnote!("fen={} target={:?} count={} want={} total={}", b.as_fen(), mv_of(m), sink.count, want, sink.total);
    vassert!("generator yields each pseudo-legal move of its class exactly once and nothing else", sink.count == want as u32);
    vassert!("no more than 256 moves generated", sink.total <= 256);
    vcover!("target generated", want);
    vcover!("target semilegal but outside the class (class generators)", G == G_ALL || (semilegal_ref(&p, m) && !class_ref(&p, m, G)));
}
