//! C03 / C04 / C05 (occupancy part): applying a move gives the prescribed position, undoing it
//! restores every field, the stored sets equal a rebuild.
use crate::dom::*;
use crate::rules::*;
use crate::spec::*;
use crate::src::Src;
use owlchess::{moves, verif, Board, Cell, Color};

pub fn same_board(a: &Board, b: &Board) -> bool {
    a.raw() == b.raw()
        && a.zobrist_hash() == b.zobrist_hash()
        && a.color(Color::White) == b.color(Color::White)
        && a.color(Color::Black) == b.color(Color::Black)
        && verif::board_all(a) == verif::board_all(b)
}

/// stored sets of `b` equal a rebuild from its squares (one symbolic cell index stands for all 13)
pub fn sets_rebuilt<S: Src>(s: &mut S, b: &Board) -> bool {
    let q = pos_of(b.raw());
    let pc = s.below(13);
    let want_pc = if pc == 0 { 0 } else { occ_of(&q.cells, |c| c == pc) };
    b.color(Color::White).as_raw() == occ_of(&q.cells, |c| color_of(c) == 0)
        && b.color(Color::Black).as_raw() == occ_of(&q.cells, |c| color_of(c) == 1)
        && verif::board_all(b).as_raw() == occ_of(&q.cells, |c| c != 0)
        && b.piece(Cell::from_index(pc as usize)).as_raw() == want_pc
}

/// FULL x all semilegal (legal or not) and null moves of one kind group
pub fn make_unmake_exact<S: Src, const SIDE: u8, const KG: u8>(s: &mut S) {
    crate::stubs::draw_hash_pool(s);
    let b0 = match any_board(s, SIDE) {
        Some(b) => b,
        None => return,
    };
    let p = pos_of(b0.raw());
    let m = any_m_g::<S, SIDE, KG>(s);
    vassume!(semilegal_ref(&p, m) || (m.kind == K_NULL && wf_ref(m)));
    let mv = mv_of(m);
    let mut b = b0.clone();
    let u = unsafe { moves::make_move_unchecked(&mut b, mv) };
    let q = pos_of(b.raw());
    let want = apply_ref(&p, m);
    vnote!("fen={} move={:?} after={}", b0.as_fen(), mv, b.as_fen());
    if m.kind != K_NULL {
        // C03 (the null move is outside C03's quantifier)
        vassert!("squares after the move are those the rules prescribe", q.cells == want.cells);
        vassert!("side to move flips", q.side == want.side);
        vassert!("castling rights removed exactly for moved king/rook and captured rook", q.castling == want.castling);
        vassert!("en-passant mark set exactly after a double step", q.ep == want.ep);
        vassert!("half-move clock reset by pawn moves and captures, else incremented (saturating)", q.mc == want.mc);
        vassert!("move number incremented after Black's move (saturating)", q.mn == want.mn);
    } else {
        vassert!("null move changes no square", q.cells == p.cells);
        vassert!("null move flips the side", q.side == 1 - p.side);
        vassert!("null move keeps castling rights", q.castling == p.castling);
        vassert!("null move clears the en-passant mark", q.ep == NONE);
    }
    // C05 (occupancy part)
    let rebuilt = sets_rebuilt(s, &b);
    vassert!("stored occupancy sets equal a rebuild after the move", rebuilt);
    // C04
    unsafe { moves::unmake_move_unchecked(&mut b, mv, u) };
    vassert!("undo restores squares, side, rights, e.p. mark and both counters", b.raw() == b0.raw());
    vassert!("undo restores the Zobrist hash", b.zobrist_hash() == b0.zobrist_hash());
    vassert!("undo restores the colour sets", b.color(Color::White) == b0.color(Color::White) && b.color(Color::Black) == b0.color(Color::Black));
    vassert!("undo restores the combined set", verif::board_all(&b) == verif::board_all(&b0));
    let pc2 = s.below(13);
    vassert!("undo restores every per-piece set", b.piece(Cell::from_index(pc2 as usize)) == b0.piece(Cell::from_index(pc2 as usize)));
    // witnesses, phrased so that each is satisfiable in every (side, group) instantiation
    let pawnish = KG == KG_PAWN || KG == KG_PSPECIAL || KG == KG_EP;
    let no_capture_group = KG == KG_CASTLING || KG == KG_NULL || KG == KG_EP;
    vcover!("a capture (groups that can capture)", no_capture_group || (m.kind != K_NULL && p.cells[m.dst as usize] != 0));
    vcover!("an illegal semilegal move", KG == KG_NULL || (m.kind != K_NULL && !legal_ref(&p, m)));
    vcover!("clock stays at the largest value (non-pawn groups)", pawnish || KG == KG_NULL || (p.mc == u16::MAX && want.mc == u16::MAX));
    vcover!("move number at the largest value (Black moves)", SIDE == WHITE || (p.mn == u16::MAX && p.side == 1));
    vcover!("clock 99 -> 100 (non-pawn groups)", pawnish || (p.mc == 99 && q.mc == 100));
    vcover!("clock 149 -> 150 (non-pawn groups)", pawnish || (p.mc == 149 && q.mc == 150));
    vcover!("clock reset (pawn groups)", !pawnish || (p.mc > 0 && q.mc == 0));
}

/// depth-2 nesting: make m1, make m2, unmake m2, unmake m1 (bounded confirmation of the induction)
pub fn nested_make_unmake<S: Src, const SIDE: u8, const KG: u8>(s: &mut S) {
    crate::stubs::draw_hash_pool(s);
    let b0 = match any_board(s, SIDE) {
        Some(b) => b,
        None => return,
    };
    let p = pos_of(b0.raw());
    let m1 = any_m_g::<S, SIDE, KG>(s);
    vassume!(legal_ref(&p, m1));
    let mut b = b0.clone();
    let u1 = unsafe { moves::make_move_unchecked(&mut b, mv_of(m1)) };
    let b1 = b.clone();
    let p1 = pos_of(b.raw());
    let m2 = any_m(s);
    vassume!(semilegal_ref(&p1, m2) || (m2.kind == K_NULL && wf_ref(m2)));
    let u2 = unsafe { moves::make_move_unchecked(&mut b, mv_of(m2)) };
    unsafe { moves::unmake_move_unchecked(&mut b, mv_of(m2), u2) };
    vassert!("inner undo restores the intermediate position in every field", same_board(&b, &b1));
    unsafe { moves::unmake_move_unchecked(&mut b, mv_of(m1), u1) };
    vassert!("outer undo restores the start position in every field", same_board(&b, &b0));
    vcover!("inner move is a capture", m2.kind != K_NULL && p1.cells[m2.dst as usize] != 0);
}
