//! C01: every way the library decides legality of one move agrees with the rules.
use crate::dom::*;
use crate::rules::*;
use crate::src::Src;
use owlchess::{moves, verif};

/// the prefiltered decision shared by legal::gen_*, has_legal_moves and the SAN candidates
pub fn prefiltered_legal_exact<S: Src, const SIDE: u8, const KG: u8>(s: &mut S) {
    crate::stubs::draw_hash_pool(s);
    let b = match any_board(s, SIDE) {
        Some(b) => b,
        None => return,
    };
    let p = pos_of(b.raw());
    let m = any_m_g::<S, SIDE, KG>(s);
    vassume!(semilegal_ref(&p, m));
    let mv = mv_of(m);
    let got = verif::is_legal_prefiltered(&b, mv);
    let want = legal_ref(&p, m);
    vnote!("fen={} move={:?} prefiltered={} rules={}", b.as_fen(), mv, got, want);
    vassert!("prefiltered legality (pins, checks, e.p.) = legal by the rules", got == want);
    vcover!("legal move", want);
    vcover!("semilegal move that leaves the king attacked", !want);
    vcover!("legal move while in check", want && in_check_ref(&p));
}

/// `validate` and `is_legal_unchecked` (no prefilter)
pub fn validate_exact<S: Src, const SIDE: u8, const KG: u8>(s: &mut S) {
    crate::stubs::draw_hash_pool(s);
    let b = match any_board(s, SIDE) {
        Some(b) => b,
        None => return,
    };
    let p = pos_of(b.raw());
    let m = any_m_g::<S, SIDE, KG>(s);
    vassume!(wf_ref(m));
    let mv = mv_of(m);
    let want = legal_ref(&p, m);
    let got = mv.validate(&b);
    vnote!("fen={} move={:?} validate={:?} rules={}", b.as_fen(), mv, got, want);
    vassert!("validate accepts exactly the legal moves", got.is_ok() == want);
    if semilegal_ref(&p, m) {
        vassert!("semilegal but illegal is reported as NotLegal", want || got == Err(moves::ValidateError::NotLegal));
        vassert!("is_legal_unchecked = legal by the rules (semilegal moves)", unsafe { mv.is_legal_unchecked(&b) } == want);
    } else {
        vassert!("not semilegal is reported as NotSemiLegal", got == Err(moves::ValidateError::NotSemiLegal));
    }
    vcover!("legal move", want);
    vcover!("semilegal but illegal", semilegal_ref(&p, m) && !want);
}

/// third way: apply the candidate and test whether the mover's king is attacked
pub fn try_unchecked_exact<S: Src, const SIDE: u8, const KG: u8>(s: &mut S) {
    crate::stubs::draw_hash_pool(s);
    let b = match any_board(s, SIDE) {
        Some(b) => b,
        None => return,
    };
    let p = pos_of(b.raw());
    vassume!(p.mc < u16::MAX && p.mn < u16::MAX);
    let m = any_m_g::<S, SIDE, KG>(s);
    vassume!(semilegal_ref(&p, m));
    let mv = mv_of(m);
    let mut b2 = b.clone();
    let _u = unsafe { moves::make_move_unchecked(&mut b2, mv) };
    let got = !b2.is_opponent_king_attacked();
    let want = legal_ref(&p, m);
    vnote!("fen={} move={:?} apply-then-test={} rules={}", b.as_fen(), mv, got, want);
    vassert!("apply then test the mover's king = legal by the rules", got == want);
    vcover!("legal move", want);
    vcover!("illegal semilegal move", !want);
}
