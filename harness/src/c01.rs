//! C01: every way the library decides legality of one move agrees with the rules.
use crate::dom::*;
use crate::rules::*;
use crate::src::Src;
use owlchess::{moves, verif};

/// the prefiltered decision shared by legal::gen_*, has_legal_moves and the SAN candidates
pub fn prefiltered_legal_exact<S: Src, const SIDE: u8, const KG: u8>(s: &mut S) {
    crate::stubs::draw_hash_pool(s);
    let b = match any_board(s, SIDE) {
        Some(b) => b,
        None => return,
    };
    let p = pos_of(b.raw());
    let m = any_m_g::<S, SIDE, KG>(s);
    vassume!(semilegal_ref(&p, m));
    let mv = mv_of(m);
    let got = verif::is_legal_prefiltered(&b, mv);
    let want = legal_ref(&p, m);
    vnote!("fen={} move={:?} prefiltered={} rules={}", b.as_fen(), mv, got, want);
    vassert!("prefiltered legality (pins, checks, e.p.) = legal by the rules", got == want);
    vcover!("legal move", want);
    vcover!("semilegal move that leaves the king attacked", !want);
    vcover!("legal move while in check (not castling)", KG == KG_CASTLING || (want && in_check_ref(&p)));
}

/// `validate` and `is_legal_unchecked` (no prefilter)
pub fn validate_exact<S: Src, const SIDE: u8, const KG: u8>(s: &mut S) {
    crate::stubs::draw_hash_pool(s);
    let b = match any_board(s, SIDE) {
        Some(b) => b,
        None => return,
    };
    let p = pos_of(b.raw());
    let m = any_m_g::<S, SIDE, KG>(s);
    vassume!(wf_ref(m));
    let mv = mv_of(m);
    let want = legal_ref(&p, m);
    let got = mv.validate(&b);
    vnote!("fen={} move={:?} validate={:?} rules={}", b.as_fen(), mv, got, want);
    vassert!("validate accepts exactly the legal moves", got.is_ok() == want);
    if semilegal_ref(&p, m) {
        vassert!("semilegal but illegal is reported as NotLegal", want || got == Err(moves::ValidateError::NotLegal));
        vassert!("is_legal_unchecked = legal by the rules (semilegal moves)", unsafe { mv.is_legal_unchecked(&b) } == want);
    } else {
        vassert!("not semilegal is reported as NotSemiLegal", got == Err(moves::ValidateError::NotSemiLegal));
    }
    vcover!("legal move (own men)", KG == KG_FOREIGN || want);
    vcover!("semilegal but illegal (own men)", KG == KG_FOREIGN || (semilegal_ref(&p, m) && !want));
    vcover!("not semilegal", !semilegal_ref(&p, m));
}

/// third way: apply the candidate and test whether the mover's king is attacked
pub fn try_unchecked_exact<S: Src, const SIDE: u8, const KG: u8>(s: &mut S) {
    crate::stubs::draw_hash_pool(s);
    let b = match any_board(s, SIDE) {
        Some(b) => b,
        None => return,
    };
    let p = pos_of(b.raw());
    vassume!(p.mc < u16::MAX && p.mn < u16::MAX);
    let m = any_m_g::<S, SIDE, KG>(s);
    vassume!(semilegal_ref(&p, m));
    let mv = mv_of(m);
    let mut b2 = b.clone();
    let _u = unsafe { moves::make_move_unchecked(&mut b2, mv) };
    let got = !b2.is_opponent_king_attacked();
    let want = legal_ref(&p, m);
    vnote!("fen={} move={:?} apply-then-test={} rules={}", b.as_fen(), mv, got, want);
    vassert!("apply then test the mover's king = legal by the rules", got == want);
    vcover!("legal move", want);
    vcover!("illegal semilegal move", !want);
}

/// list-returning legal generators under the abstract legality predicate (S6), GEN(K) on FULL:
/// occurrences of the symbolic target in `legal::gen_X(b)` = [pseudo-legal, in class X, accepted by A].
/// With `prefiltered_legal_exact` (A = the rules) this is "exactly the legal moves, each once".
/// Natively (replay) the real generator is compared with the rules directly.
pub fn legal_gen_list<S: Src, const SIDE: u8, const G: u8, const KP: u32, const KN: u32>(s: &mut S) {
    use crate::c06::*;
    use owlchess::movegen::legal;
    crate::stubs::draw_hash_pool(s);
    let b = match any_board(s, SIDE) {
        Some(b) => b,
        None => return,
    };
    vassume!(gen_bound2(&b, KP, KN));
    let p = pos_of(b.raw());
    let t = any_m(s);
    let ans = s.bool();
    crate::s6::reset(mv_of(t), ans);
    let list = match G {
        G_ALL => legal::gen_all(&b),
        G_CAPTURE => legal::gen_capture(&b),
        G_SIMPLE => legal::gen_simple(&b),
        G_SIMPLE_NO_PROMOTE => legal::gen_simple_no_promote(&b),
        _ => legal::gen_simple_promote(&b),
    };
    let mut count = 0u32;
    let mut i = 0;
    while i < list.len() {
        if list[i] == mv_of(t) {
            count += 1;
        }
        i += 1;
    }
    #[cfg(kani)]
    {
        let want = semilegal_ref(&p, t) && class_ref(&p, t, G) && ans;
        vassert!("legal list = pseudo-legal moves of the class accepted by the filter, each exactly once", count == want as u32);
        vassert!("the filter is asked exactly once about each generated move", unsafe { crate::s6::T_ASKED } == (semilegal_ref(&p, t) && class_ref(&p, t, G)) as u32);
        vcover!("target kept", want);
        vcover!("target generated but filtered out", semilegal_ref(&p, t) && class_ref(&p, t, G) && !ans);
        vcover!("an en-passant target kept", want && t.kind == K_EP || G == crate::c06::G_SIMPLE || G == crate::c06::G_SIMPLE_NO_PROMOTE || G == crate::c06::G_SIMPLE_PROMOTE);
    }
    #[cfg(not(kani))]
    {
        let want = legal_ref(&p, t) && class_ref(&p, t, G);
        vnote!("fen={} target={:?} occurrences={} rules say {}", b.as_fen(), mv_of(t), count, want);
        vassert!("legal list = legal moves of the class, each exactly once", count == want as u32);
        // and the whole list, exhaustively
        let mut n = 0usize;
        for kind in 1..10u8 {
            for cell in 1..13u8 {
                for src in 0..64u8 {
                    for dst in 0..64u8 {
                        let m = M { kind, cell, src, dst };
                        if p.cells[src as usize] == cell && legal_ref(&p, m) && class_ref(&p, m, G) {
                            n += 1;
                            vassert!("every legal move of the class is in the list", list.iter().filter(|x| **x == mv_of(m)).count() == 1);
                        }
                    }
                }
            }
        }
        vassert!("the list holds nothing else", n == list.len());
    }
    core::mem::forget(list);
}

/// the prefiltered decision for en-passant captures when the mover's king stands on the same rank as the two
/// pawns (the configuration in which removing both pawns can uncover a rook or queen; defect 1 lived here).
/// A sub-case of `prefiltered_legal_exact::<SIDE, KG_EP>`, cheap enough for the quick tier.
pub fn prefiltered_ep_king_on_rank<S: Src, const SIDE: u8>(s: &mut S) {
    crate::stubs::draw_hash_pool(s);
    let b = match any_board(s, SIDE) {
        Some(b) => b,
        None => return,
    };
    let p = pos_of(b.raw());
    let m = any_m_g::<S, SIDE, KG_EP>(s);
    let k = find_king(&p.cells, p.side);
    vassume!((k >> 3) == (m.src >> 3));
    vassume!(semilegal_ref(&p, m));
    let mv = mv_of(m);
    let got = verif::is_legal_prefiltered(&b, mv);
    let want = legal_ref(&p, m);
    vnote!("fen={} move={:?} prefiltered={} rules={}", b.as_fen(), mv, got, want);
    vassert!("prefiltered legality of an en-passant capture with the king on the pawns' rank = legal by the rules", got == want);
    vcover!("legal", want);
    vcover!("illegal: the capture uncovers an attack along the rank", !want && !in_check_ref(&p));
}
