//! C18: White/Black (top-bottom mirror with colours swapped) and left/right symmetry.
//! Relational: two runs of the real code, the oracle contributes only the mirroring.
use crate::dom::*;
use crate::rules::*;
use crate::src::Src;
use owlchess::{verif, Board, Outcome};

pub const MV: u8 = 0; // top-bottom mirror + colour swap
pub const MH: u8 = 1; // left-right mirror (positions without castling rights)

fn swap_cell(c: u8) -> u8 {
    if c == 0 {
        0
    } else if c <= 6 {
        c + 6
    } else {
        c - 6
    }
}

pub fn mirror_pos(p: &Pos, how: u8) -> Pos {
    let mut q = *p;
    let x = if how == MV { 56 } else { 7 };
    let mut i = 0usize;
    while i < 64 {
        let c = p.cells[i ^ x];
        q.cells[i] = if how == MV { swap_cell(c) } else { c };
        i += 1;
    }
    if how == MV {
        q.side = 1 - p.side;
        q.castling = ((p.castling & 3) << 2) | (p.castling >> 2);
    }
    q.ep = if p.ep == NONE { NONE } else { p.ep ^ (x as u8) };
    q
}

pub fn mirror_m(m: M, how: u8) -> M {
    if m.kind == K_NULL {
        return m;
    }
    let x = if how == MV { 56 } else { 7 };
    M { kind: m.kind, cell: if how == MV { swap_cell(m.cell) } else { m.cell }, src: m.src ^ x, dst: m.dst ^ x }
}

fn mirror_outcome(o: Option<Outcome>, how: u8) -> Option<Outcome> {
    match o {
        Some(Outcome::Win { side, reason }) if how == MV => Some(Outcome::Win { side: side.inv(), reason }),
        x => x,
    }
}

/// the mirrored position is valid and equals the mirror of the board; per-move legality decisions,
/// check and classification are mirror images
pub fn mirror_move<S: Src, const SIDE: u8, const KG: u8, const HOW: u8>(s: &mut S) {
    crate::stubs::draw_hash_pool(s);
    let b = match any_board(s, SIDE) {
        Some(b) => b,
        None => return,
    };
    let p = pos_of(b.raw());
    if HOW == MH {
        vassume!(p.castling == 0);
    }
    let q = mirror_pos(&p, HOW);
    let b2 = match Board::try_from(raw_of(&q)) {
        Ok(x) => x,
        Err(_) => {
            vassert!("the mirrored position is valid", false);
            return;
        }
    };
    vassert!("validating the mirrored position keeps it as it is", pos_of(b2.raw()) == q);
    let t = any_m_g::<S, SIDE, KG>(s);
    vassume!(wf_ref(t));
    if HOW == MH {
        vassume!(t.kind != K_OO && t.kind != K_OOO);
    }
    let t2 = mirror_m(t, HOW);
    let (mv, mv2) = (mv_of(t), mv_of(t2));
    vnote!("fen={} mirrored={} move={:?} mirrored move={:?}", b.as_fen(), b2.as_fen(), mv, mv2);
    vassert!("the mirror image of a well-formed move is well-formed", mv2.is_well_formed());
    let semi = mv.is_semilegal(&b);
    vassert!("semilegal <=> mirror image semilegal in the mirrored position", semi == mv2.is_semilegal(&b2));
    vassert!("legal <=> mirror image legal in the mirrored position", mv.validate(&b).is_ok() == mv2.validate(&b2).is_ok());
    if semi {
        vassert!("prefiltered legality is mirror symmetric", verif::is_legal_prefiltered(&b, mv) == verif::is_legal_prefiltered(&b2, mv2));
    }
    vassert!("check status is the same", b.is_check() == b2.is_check());
    vcover!("a legal move (own men)", KG == KG_FOREIGN || mv.validate(&b).is_ok());
    vcover!("a semilegal but illegal move (own men)", KG == KG_FOREIGN || (semi && mv.validate(&b).is_err()));
    vcover!("a move that is not semilegal", !semi);
}

/// classification is the same with the winner swapped (S3: both probes answer the same h, which
/// is justified by the per-move equivalence above + C07's probe harnesses)
pub fn mirror_outcome_eq<S: Src, const SIDE: u8, const HOW: u8>(s: &mut S) {
    crate::stubs::draw_hash_pool(s);
    let b = match any_board(s, SIDE) {
        Some(b) => b,
        None => return,
    };
    let p = pos_of(b.raw());
    if HOW == MH {
        vassume!(p.castling == 0);
    }
    let q = mirror_pos(&p, HOW);
    let b2 = match Board::try_from(raw_of(&q)) {
        Ok(x) => x,
        Err(_) => {
            vassert!("the mirrored position is valid", false);
            return;
        }
    };
    #[cfg(kani)]
    {
        let h = s.bool();
        unsafe { crate::stubs::HLM = h };
    }
    #[cfg(not(kani))]
    let _ = s.bool();
    let o1 = b.calc_outcome();
    let o2 = b2.calc_outcome();
    vnote!("fen={} mirrored={} outcome={:?} mirrored outcome={:?}", b.as_fen(), b2.as_fen(), o1, o2);
    vassert!("outcome of the mirrored position = outcome with the winner swapped", mirror_outcome(o1, HOW) == o2);
    vcover!("a decisive outcome", matches!(o1, Some(Outcome::Win { .. })));
    vcover!("insufficient material", o1 == Some(Outcome::Draw(owlchess::DrawReason::InsufficientMaterial)));
}

/// generator level (GEN(K)): the mirrored target is generated in the mirrored position exactly as
/// often as the target in the original
pub fn mirror_gen<S: Src, const SIDE: u8, const HOW: u8, const KP: u32, const KN: u32>(s: &mut S) {
    crate::stubs::draw_hash_pool(s);
    let b = match any_board(s, SIDE) {
        Some(b) => b,
        None => return,
    };
    vassume!(gen_bound2(&b, KP, KN));
    let p = pos_of(b.raw());
    if HOW == MH {
        vassume!(p.castling == 0);
    }
    let q = mirror_pos(&p, HOW);
    let b2 = match Board::try_from(raw_of(&q)) {
        Ok(x) => x,
        Err(_) => {
            vassert!("the mirrored position is valid", false);
            return;
        }
    };
    let t = any_m(s);
    let t2 = mirror_m(t, HOW);
    let mut s1 = crate::c06::Sink::new(mv_of(t));
    let mut s2 = crate::c06::Sink::new(mv_of(t2));
    owlchess::movegen::semilegal::gen_all_into(&b, &mut s1);
    owlchess::movegen::semilegal::gen_all_into(&b2, &mut s2);
    vassert!("generated moves of the mirrored position are the mirror images", s1.count == s2.count);
    vassert!("same number of moves", s1.total == s2.total);
    vcover!("target generated", s1.count == 1);
}
