#!/bin/bash
# Builds the framework from files on disk only (offline): native replay binary (dev + release)
# and one Kani codegen pass to warm the first build slot.
set -e
cd "$(dirname "$0")"
export CARGO_NET_OFFLINE=true
python3 tools/gen_registry.py
cd harness
RUSTFLAGS="--cfg owlchess_verif" cargo build --offline --bin replay
RUSTFLAGS="--cfg owlchess_verif" cargo build --offline --release --bin replay
mkdir -p ../.build
RUSTFLAGS="--cfg owlchess_verif" cargo kani --lib -Z stubbing -Z unstable-options --only-codegen --target-dir ../.build/slot0 --exact --harness registry::c20_geometry_table > ../.build/setup-kani.log 2>&1 || { tail -20 ../.build/setup-kani.log; exit 1; }
echo setup ok
