#!/bin/bash
# Builds the framework from files on disk only (offline): native replay binary (dev + release)
# and one Kani codegen pass to warm the first build slot.
set -e
cd "$(dirname "$0")"
export CARGO_NET_OFFLINE=true
python3 tools/gen_registry.py
cd harness
RUSTFLAGS="--cfg owlchess_verif" cargo build --offline --bin replay
RUSTFLAGS="--cfg owlchess_verif" cargo build --offline --release --bin replay
mkdir -p ../.build
# warm the build slots the runner uses (dependencies + owlchess compiled once per slot, in parallel)
for i in 0 1 2 3 4 5 6 7 8 9 10 11; do
  ( RUSTFLAGS="--cfg owlchess_verif" cargo kani --lib -Z stubbing -Z unstable-options --only-codegen --target-dir ../.build/slot$i --exact --harness registry::c20_geometry_table > ../.build/setup-kani-$i.log 2>&1 ) &
done
wait
grep -q "error" ../.build/setup-kani-0.log && { tail -20 ../.build/setup-kani-0.log; exit 1; }
echo setup ok
