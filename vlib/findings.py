"""Known findings (committed file, never written at run time)."""
import os, re

PATH = os.path.join(os.path.dirname(os.path.dirname(os.path.abspath(__file__))), 'known_findings.txt')


def load():
    out = []
    if not os.path.exists(PATH):
        return out
    for line in open(PATH):
        line = line.strip()
        m = re.match(r'finding: property=(\S+) key=(\S+) (.*)', line)
        if m:
            out.append({'property': m.group(1), 'key': m.group(2), 'what': m.group(3)})
    return out


def role_key(harness, x):
    """the role of a counterexample: harness family (case suffixes dropped) + the assertion that fails"""
    fam = re.sub(r'_(w|b)(_[a-z0-9]+)?$', '', harness)
    lab = re.sub(r'[^a-z0-9]+', '-', x['check'].lower()).strip('-')[:60]
    return fam + ':' + lab


def is_known(known, prop, key):
    return any(k['property'] == prop and k['key'] == key for k in known)


def describe(known, prop, key):
    for k in known:
        if k['property'] == prop and k['key'] == key:
            return 'key=%s %s' % (key, k['what'])
    return key
