"""What MANIFEST.json claims per property (kept next to the registry so the two stay in step)."""

HOOK_COMMITS = ['ba7d545']

NOTES = ('Every check is ./check <id> --tier quick|thorough: it rebuilds the harness crate (path dependency on /repo/chess and '
         '/repo/chess_base, so owlchess and its build.rs tables are recompiled from the working tree) with --cfg owlchess_verif, runs the '
         'registered Kani harnesses in parallel, replays every counterexample natively (dev and release) and writes evidence/<id>.json. '
         'Exit 0 = held within the stated bounds; 1 = VIOLATION (replayed); 2 = inconclusive (time-out, out of memory, unwinding bound too '
         'small, vacuous harness, non-reproducing counterexample) and never a pass. VERIF_SEED only seeds non-deciding choices.')

NOT_APPLICABLE = {
    'C17': 'walker clause: the harness (stated chain, stated concrete walker operations, then ONE symbolic operation from {next, prev, start, end}, '
           'compared with a plain-board model in every field) needs more than 18 GB and more than 850 s even for a four-move chain - each walker '
           'step re-makes or un-makes moves on a board CBMC does not constant-fold - so no quick check fits the 900 s limit and none passed within '
           'the thorough caps either; the list-text clauses need core::fmt over several moves (same wall as C08). Harness code is kept '
           '(harness/src/c13.rs: walker_steps) but claims nothing (DESIGN.md section 6)',
    'C08': 'every clause needs the text produced by Display for RawBoard (about 70 nested core::fmt calls into a heap String): '
           'RawBoard::initial().as_fen() - a concrete board - did not finish 15 min of symbolic execution; the parser alone proves none of '
           'the clauses; no other technique is substituted (DESIGN.md section 6)',
}

CLAIMS = {}


def claim(pid, text, note, design_ref):
    CLAIMS[pid] = dict(text=text, note=note, design_ref=design_ref)


TB = ('Trusted: the 350-line mailbox oracle (harness/src/rules.rs, spec.rs), Kani MIR->goto translation, CBMC, CaDiCaL. ')

claim('C20', 'Bounded model checking, complete over each finite / 64-bit domain: index and character round trips for every value, checked '
      'constructors panic exactly out of range (should_panic harness + unreachable cover), bitboard operators against per-square set semantics '
      'for all 64-bit sets, one inductive step of the iterator from any state, deposit_bits against a bit-by-bit definition, geometry and named '
      'constants against (file, rank) arithmetic. The solver decides each assertion for all values at once.',
      TB + 'Bitboard iteration for every set rests on the one-step harness (state read through its one-u64 layout) plus induction; the full '
      'iteration is unrolled only for sets of at most 16 members.', 'DESIGN.md C20')
claim('C15', 'Bounded model checking of the real look-ups against ray-walk / geometric definitions: leapers and pawn tables for all squares, '
      'between/alignment tables for all 64x64 pairs, bishop magic look-up for all 64 squares x all 2^64 occupancies with Kani proving the '
      'table index in bounds; rook look-up: all squares x all occupancies in the thorough tier (Kani) and per square by the MIR->SMT engine. '
      'The tables are those the build script emitted for the build under test (recompiled from /repo on every run).',
      TB + 'For non-aligned pairs the strictly-between value is unspecified and not checked.', 'DESIGN.md C15')

GENB = ('Generator-level clauses are decided within GEN bounds only (mover has at most one man of each non-king kind, or king + at most two pawns; '
        'the opponent stays arbitrary); all per-move clauses are decided for every valid position. ')
S12N = ('Stubs S1 (slider look-ups replaced by the ray walk that C15 proves equal) and S2 (from-scratch hash made arbitrary) are part of the claim. ')

claim('C01', 'Bounded model checking over FULL = every position accepted by the real Board::try_from (64 symbolic cells, side, rights, e.p. mark, '
      'counters) x every move tuple, case-split by side and move-kind group (the union of the cases is exhaustive): the prefiltered legality decision '
      'shared by legal::gen_*, has_legal_moves and the SAN candidates, Move::validate / is_legal_unchecked, and apply-then-test all equal legal_ref '
      '(mailbox statement of the rules). The semilegal generators are decided against semilegal_ref with an observer sink and a symbolic target move '
      '(each pseudo-legal move of the class exactly once, nothing else, at most 256 moves) within GEN bounds.',
      TB + S12N + GENB + 'The list-returning legal::gen_X = semilegal::gen_X followed by retain(prefiltered decision) is a three-line composition that is '
      'read, not solved: the harness that abstracted the filter (S6) failed unwinding assertions on the unchanged tree for reasons not yet understood '
      'and is therefore not registered. Quick tier: the special-move and king cases of the prefiltered decision plus the pawn-only generator bound.',
      'DESIGN.md C01')
claim('C02', 'One step of every safe entry point from an arbitrary valid position (FULL x every well-formed tuple, by case): Board::make_move and '
      'Make::make_raw accept exactly the legal moves; an accepted move yields a position that satisfies C11\'s validity conditions with nothing to '
      'normalise and rebuilt derived sets (thorough: re-validated with the real try_from), mover not in check; a refused move leaves every field '
      'unchanged; no panic for any counter value. UCI values/strings via C10\'s acceptance harnesses, SAN values via C09\'s soundness harnesses, '
      'chains via C13\'s one-operation harnesses; histories by the induction of DESIGN.md section 4.',
      TB + S12N + 'SAN candidate search within GEN(2); SAN/UCI strings longer than 7/6 bytes and sequences of two or more symbolic chain operations are outside.',
      'DESIGN.md C02')
claim('C03', 'FULL x every legal move, by case: the position after make equals apply_ref field by field (squares, side, rights, e.p. mark, half-move '
      'clock, move number - saturating at 65535), for all counter values incl. 99/100, 149/150, 65535 (cover witnesses).',
      TB + S12N + 'The null move is outside C03\'s quantifier (checked separately for C04).', 'DESIGN.md C03')
claim('C04', 'FULL x every semilegal (legal or not) and null move, by case: make then unmake restores raw board, hash, colour sets, combined set and '
      'every per-piece set (one symbolic cell index stands for all 13). Nesting: depth-2 harness in the thorough tier; arbitrary depth by induction on '
      'the one-step lemma; chain pops and walker steps through C13/C17.', TB + S12N, 'DESIGN.md C04')
claim('C05', 'Stored sets = rebuild after every semilegal/null move from every valid position; hash: frame + delta lemma from an ARBITRARY pre-state '
      'hash (S2) for every move, hence stored = from-scratch is preserved by every step; try_from stores the from-scratch hash of the normalised raw '
      'board (C11 harness); RawBoard::zobrist_hash = XOR of the feature keys for every raw board (no S2) and ignores the counters; key-table facts of '
      'the build under test (non-zero, pairwise distinct per feature, XOR-linear castling keys, precombined castling deltas).',
      TB + 'The cancellation step (frame + delta => scratch(after) = scratch(before) ^ delta) is a two-line algebraic argument outside the solver. '
      'Hash collisions between different positions are outside the claim.', 'DESIGN.md C05')
claim('C06', 'All 532 480 tuples: is_well_formed / Move::new = geometric possibility (exhaustive by solver). FULL x every well-formed tuple, by case '
      '(incl. tuples naming the wrong colour or an empty cell): is_semilegal = semilegal_ref. Generators: observer sink with a symbolic target: '
      'count(target) = [semilegal_ref and class], total <= 256, for the five generators.',
      TB + S12N + GENB, 'DESIGN.md C06')
claim('C07', 'FULL, S3 (has_legal_moves = symbolic h): calc_outcome and calc_draw_simple equal the forced > mandatory > claimable classification with '
      'insufficient material counted from the squares, for all clock values and both answers of the probe; companion harness for a lone king to move, '
      'where the probe answer is decided by the rules (realizable counterexamples); rule-level lemma: legal castling => legal king step to the transit '
      'square (why the probe may skip castling).',
      TB + S12N + 'NOT decided: "has_legal_moves is true exactly when a legal move exists" as a statement about the early-exit probe itself - the S6 wiring '
      'harness is unsound on the unchanged tree (unresolved unwinding failures) and the direct harness with the real filter needs more than 28 GB '
      'even for king + one pawn; the probe is exercised natively in every replay only.', 'DESIGN.md C07')
claim('C09', 'Decided: parser totality for every UTF-8 string up to 7 bytes (S4, S7); Data::Simple naming a pawn is refused with an error through into_move and '
      'Make (defect 4); thorough: into_move for every Castling value is sound and complete on FULL (a returned move is legal and agrees with the value; a '
      'value that denotes a legal move is not refused).',
      TB + S12N + 'NOT decided (harnesses built but exceeding 24 GB or the time caps, so in no tier): into_move for the other variants, from_move '
      '(piece letter, disambiguation, capture mark, check/mate mark, round trip); never attempted beyond probes: the rendering of a SAN value as text '
      '(core::fmt) and the exact grammar of the parser. C09 is therefore a small partial claim.', 'DESIGN.md C09')
claim('C10', 'FULL x every semilegal move: uci::Move::from(m).into_move(b) == m (kind inference). FULL x every uci::Move value: the semilegal / legal '
      'readers succeed exactly when a semilegal / legal move with that source, destination and promotion exists; null never accepted. Every UTF-8 '
      'string of at most 6 bytes: accepted iff it matches the UCI grammar, fields read correctly. Thorough: value -> text -> value through core::fmt, '
      'and the string-level readers composed on FULL.', TB + S12N + 'Strings longer than 6 bytes are rejected by the length test, which is inside the bound.', 'DESIGN.md C10')
claim('C11', 'Every raw board (13^64 cell assignments x side x rights x e.p. marks x counters, no validity assumption): try_from succeeds exactly when '
      'the validity conditions hold; every error variant is truthful; the result equals the documented normalisation of the input; derived sets equal '
      'a rebuild; the stored hash is the from-scratch hash of the normalised board; validating the result again changes nothing.', TB + S12N, 'DESIGN.md C11')
claim('C12', 'Totality by solver for every well-formed UTF-8 string up to N bytes per entry point (Coord 4, Color 3, Cell 3, CastlingRights 6, UCI 6, '
      'SAN 5 quick / 7 thorough with S4+S7), with the accepted set characterised byte-wise for all but SAN; re-formatting round trips through core::fmt '
      'for Coord, Color, Cell, CastlingRights (and UCI in the thorough tier).',
      TB + 'S4 / S7 (core::str::from_utf8 and str::is_ascii replaced by byte-level reference definitions). NOT decided: FEN records and '
      'move-list text (the FEN parser harnesses do not fit), SAN/FEN re-formatting (core::fmt), longer strings.', 'DESIGN.md C12')
claim('C13', 'BaseMoveChain<ArrRepeat> (array-backed exact repetition table): from each stated pre-state (6 start positions x stated concrete prefixes), '
      'ONE symbolic operation (push of any move tuple, push of any UCI value, pop, set/clear/reset/auto outcome), optionally followed by a pop, is '
      'compared with the plain-board model in every field (raw, hash, sets, move list, start, outcome, repetition table); chain equality for two chains '
      'after one symbolic push and outcome each, from equal, clock-different, rights-different and different starts.',
      TB + 'S1, S3. MoveChain = BaseMoveChain<HashRepeat> is not encodable (HashMap): the chain logic is generic in the table and the result transfers '
      'assuming HashMap is a correct map and no Zobrist collisions within a game. Two or more symbolic operations in sequence are outside.', 'DESIGN.md C13')
claim('C14', 'Outcome filter table: exhaustive. Chain precedence: all board outcomes x every usize repetition count x 3 filters (S5). Repetition '
      'discipline: inside C13\'s one-operation harnesses the table equals the multiset of positions on the current line and the calculated outcome '
      'equals the model\'s. The board part of the outcome is C07\'s classification harness (run by this check too).',
      TB + 'As C13; S5 (Board::calc_outcome replaced by a symbolic outcome) in the precedence harness.', 'DESIGN.md C14')
claim('C16', 'FULL x 64 squares x 2 colours: cell_attackers = men that could capture there (attackers_ref), is_cell_attacked = non-empty; is_check, '
      'checkers, is_opponent_king_attacked against the same definition. Loop-free, complete over all valid positions.', TB + S12N, 'DESIGN.md C16')
claim('C18', 'Relational, two runs of the real code on FULL: the mirrored position is valid and unchanged by validation; per move (by case): '
      'semilegal, legal (validate) and prefiltered legality of t in b equal those of mirror(t) in mirror(b); check status equal; calc_outcome equal '
      'with the winner swapped (S3); left-right mirror for positions without castling rights. Generators: pawn-only bound in quick, GEN(1) sink '
      'counts in thorough.', TB + S12N + GENB, 'DESIGN.md C18')
claim('C19', 'Kani\'s pointer, bounds, overflow and unreachable checks inside the hosting harnesses: every get_unchecked / add_unchecked / '
      'lookup.add(idx) / push_unchecked / unreachable_unchecked site reached is proved in range for all inputs of that harness\'s domain '
      '(magic look-ups: all squares x occupancies; zobrist and cell tables: every raw board; validator/attack/make-unmake: FULL; generators: GEN bounds).',
      TB + 'NOT decided: "no valid position has more than 256 semilegal moves" beyond the GEN bounds (needs a global counting argument); machine-code '
      'effects of UB are outside any MIR-level tool. Kani analyses MIR with overflow and debug assertions on.', 'DESIGN.md C19')
