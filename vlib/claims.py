"""What MANIFEST.json claims per property (kept next to the registry so the two stay in step)."""

HOOK_COMMITS = ['ba7d545']

NOTES = ('Every check is ./check <id> --tier quick|thorough: it rebuilds the harness crate (path dependency on /repo/chess and '
         '/repo/chess_base, so owlchess and its build.rs tables are recompiled from the working tree) with --cfg owlchess_verif, runs the '
         'registered Kani harnesses in parallel, replays every counterexample natively (dev and release) and writes evidence/<id>.json. '
         'Exit 0 = held within the stated bounds; 1 = VIOLATION (replayed); 2 = inconclusive (time-out, out of memory, unwinding bound too '
         'small, vacuous harness, non-reproducing counterexample) and never a pass. VERIF_SEED only seeds non-deciding choices.')

NOT_APPLICABLE = {
    'C08': 'every clause needs the text produced by Display for RawBoard (about 70 nested core::fmt calls into a heap String): '
           'RawBoard::initial().as_fen() - a concrete board - did not finish 15 min of symbolic execution; the parser alone proves none of '
           'the clauses; no other technique is substituted (DESIGN.md section 6)',
}

CLAIMS = {}


def claim(pid, text, note, design_ref):
    CLAIMS[pid] = dict(text=text, note=note, design_ref=design_ref)


TB = ('Trusted: the 350-line mailbox oracle (harness/src/rules.rs, spec.rs), Kani MIR->goto translation, CBMC, CaDiCaL. ')

claim('C20', 'Bounded model checking, complete over each finite / 64-bit domain: index and character round trips for every value, checked '
      'constructors panic exactly out of range (should_panic harness + unreachable cover), bitboard operators against per-square set semantics '
      'for all 64-bit sets, one inductive step of the iterator from any state, deposit_bits against a bit-by-bit definition, geometry and named '
      'constants against (file, rank) arithmetic. The solver decides each assertion for all values at once.',
      TB + 'Bitboard iteration for every set rests on the one-step harness (state read through its one-u64 layout) plus induction; the full '
      'iteration is unrolled only for sets of at most 16 members.', 'DESIGN.md C20')
claim('C15', 'Bounded model checking of the real look-ups against ray-walk / geometric definitions: leapers and pawn tables for all squares, '
      'between/alignment tables for all 64x64 pairs, bishop magic look-up for all 64 squares x all 2^64 occupancies with Kani proving the '
      'table index in bounds; rook look-up: all squares x all occupancies in the thorough tier (Kani) and per square by the MIR->SMT engine. '
      'The tables are those the build script emitted for the build under test (recompiled from /repo on every run).',
      TB + 'For non-aligned pairs the strictly-between value is unspecified and not checked.', 'DESIGN.md C15')
