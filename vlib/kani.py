"""Driving Kani/CBMC and parsing what it reports."""
import json, os, re, resource, signal, subprocess, time

VERIF = os.path.dirname(os.path.dirname(os.path.abspath(__file__)))
HARNESS_DIR = os.path.join(VERIF, 'harness')
BUILD = os.environ.get('VERIF_BUILD_DIR') or os.path.join(VERIF, '.build')
GUARD_FLAGS = '--cfg owlchess_verif'


def env():
    e = dict(os.environ)
    e['RUSTFLAGS'] = GUARD_FLAGS
    e['CARGO_NET_OFFLINE'] = 'true'
    e.pop('RUSTUP_TOOLCHAIN', None)
    return e


def _limits(mem_gb):
    def f():
        os.setsid()
        if mem_gb:
            # generous address-space backstop; the real limit is the resident-set watchdog in Proc.poll
            lim = int(mem_gb * 3 * (1 << 30))
            resource.setrlimit(resource.RLIMIT_AS, (lim, lim))
    return f


def kill_group(p):
    try:
        os.killpg(p.pid, signal.SIGKILL)
    except Exception:
        pass


def kani_cmd(name, slot_dir, unwindset=None, extra=None):
    cmd = ['cargo', 'kani', '--lib', '-Z', 'stubbing', '-Z', 'unstable-options',
           '-Z', 'concrete-playback', '--concrete-playback=print',
           '--no-assertion-reach-checks', '--target-dir', slot_dir,
           '--exact', '--harness', 'registry::' + name]
    if extra:
        cmd += extra
    if unwindset:
        cmd += ['--cbmc-args', '--unwindset', unwindset]
    return cmd


class Proc:
    """One running `cargo kani` (own process group, own log, address-space limit on cbmc)."""

    def __init__(self, name, slot_dir, log_path, cap_s, mem_gb, unwindset=None, extra=None):
        self.name, self.log_path, self.cap_s = name, log_path, cap_s
        self.t0 = time.time()
        self.log = open(log_path, 'w')
        self.cmd = kani_cmd(name, slot_dir, unwindset, extra)
        # the address-space limit is applied to the whole group; rustc/cargo stay far below it
        self.p = subprocess.Popen(self.cmd, cwd=HARNESS_DIR, env=env(), stdout=self.log,
                                  stderr=subprocess.STDOUT, preexec_fn=_limits(mem_gb))
        self.timed_out = False
        self.mem_exceeded = False
        self.mem_limit_gb = mem_gb
        self.peak_rss_gb = 0.0
        self._last_sample = 0.0

    def sample_rss(self):
        try:
            out = subprocess.run(['ps', '-o', 'rss=', '-g', str(self.p.pid)], capture_output=True, text=True).stdout
            tot = sum(int(x) for x in out.split() if x.isdigit()) / (1 << 20)
            self.peak_rss_gb = max(self.peak_rss_gb, round(tot, 2))
        except Exception:
            pass

    def poll(self):
        if time.time() - self._last_sample > 5:
            self._last_sample = time.time()
            self.sample_rss()
        r = self.p.poll()
        if r is None and self.mem_limit_gb and self.peak_rss_gb > self.mem_limit_gb:
            self.mem_exceeded = True
            kill_group(self.p)
            self.p.wait()
            r = self.p.returncode
        if r is None and time.time() - self.t0 > self.cap_s:
            self.timed_out = True
            kill_group(self.p)
            self.p.wait()
            r = self.p.returncode
        if r is not None:
            kill_group(self.p)  # orphaned cbmc children
            self.log.close()
            self.wall = time.time() - self.t0
        return r


CHECK_RE = re.compile(r'^Check (\d+): (.+)\n\t - Status: (\w+)\n\t - Description: "(.*)"\n(?:\t - Location: (.*)\n)?', re.M)
PLAY_RE = re.compile(r'/// Check for `(\w+)`: "([^\n]*)"\n(?:[ \t]*\n|///[^\n]*\n)*#\[test\]\nfn (\w+)\(\) \{\n\s*let concrete_vals: Vec<Vec<u8>> = vec!\[\n(.*?)\n\s*\];', re.S)
VEC_RE = re.compile(r'vec!\[([0-9, ]*)\]')


def unq(s):
    s = s.replace('\\"', '"')
    while len(s) >= 2 and s[0] == '"' and s[-1] == '"':
        s = s[1:-1]
    return s


def parse_log(path):
    txt = open(path, errors='replace').read()
    res = {'checks': [], 'playback': [], 'stubs': [], 'raw_status': None, 'stats': {}}
    for m in CHECK_RE.finditer(txt):
        res['checks'].append({'n': int(m.group(1)), 'id': m.group(2), 'status': m.group(3),
                              'desc': unq(m.group(4)), 'loc': m.group(5) or ''})
    for m in PLAY_RE.finditer(txt):
        vals = [[int(x) for x in v.split(',') if x.strip()] for v in VEC_RE.findall(m.group(4))]
        res['playback'].append({'kind': m.group(1), 'label': unq(m.group(2)), 'test': m.group(3), 'vals': vals})
    m = re.search(r'^VERIFICATION:- (\w+)(.*)$', txt, re.M)
    if m:
        res['raw_status'] = m.group(1)
        res['status_note'] = m.group(2).strip()
    res['stubs'] = re.findall(r'- Stub: (.*)', txt)
    for key, pat in [('vars', r'(\d+) variables, (\d+) clauses'), ('symex_s', r'Runtime Symex: ([\d.e+-]+)s'),
                     ('convert_s', r'Runtime Convert SSA: ([\d.e+-]+)s'), ('solver_s', r'Runtime Solver: ([\d.e+-]+)s'),
                     ('decision_s', r'Runtime decision procedure: ([\d.e+-]+)s'), ('verif_s', r'Verification Time: ([\d.e+-]+)s')]:
        mm = re.findall(pat, txt)
        if mm:
            if key == 'vars':
                res['stats']['variables'] = int(mm[-1][0]); res['stats']['clauses'] = int(mm[-1][1])
            else:
                res['stats'][key] = round(sum(float(x) for x in mm), 2)
    res['sat_calls'] = len(re.findall(r'Runtime Solver:', txt))
    res['error_lines'] = [l for l in txt.split('\n') if l.startswith('error') or 'internal compiler error' in l
                          or 'CBMC failed' in l or 'out of memory' in l.lower() or 'ran out of memory' in l or 'Status: ERROR' in l
                          or 'std::bad_alloc' in l][:10]
    res['no_harness'] = 'No proof harnesses' in txt or 'no harnesses matched' in txt.lower()
    return res


LOOP_RE = re.compile(r'Loop (\S+):\n\s+file (\S+) line (\d+)')


def codegen_only(name, slot_dir, log_path):
    cmd = ['cargo', 'kani', '--lib', '-Z', 'stubbing', '-Z', 'unstable-options', '--only-codegen', '--target-dir', slot_dir,
           '--exact', '--harness', 'registry::' + name]
    with open(log_path, 'w') as lf:
        r = subprocess.run(cmd, cwd=HARNESS_DIR, env=env(), stdout=lf, stderr=subprocess.STDOUT)
    return r.returncode == 0


def find_goto(name, slot_dir):
    import glob
    pat = os.path.join(slot_dir, 'kani', '*', 'debug', 'build', 'hx', '*', 'out', '*registry%d%s.out' % (len(name), name))
    c = sorted(glob.glob(pat), key=os.path.getmtime)
    return c[-1] if c else None


def compute_unwindset(name, slot_dir, kk, log_path):
    """per-loop bounds for the data-dependent generator loops, derived from the goto binary of THIS build.
    kk = (kp, kn): GEN bound on the mover's pawns / other non-king men per kind.
    Loops that are not recognised keep the harness default (and its unwinding assertion)."""
    kp, kn = kk if isinstance(kk, (tuple, list)) else (kk, kk)
    k = max(kp, kn)
    if not codegen_only(name, slot_dir, log_path):
        return None, 'codegen failed'
    out = find_goto(name, slot_dir)
    if not out:
        return None, 'goto binary not found'
    txt = subprocess.run(['cbmc', '--show-loops', out], capture_output=True, text=True).stdout
    us, notes = [], []
    for m in LOOP_RE.finditer(txt):
        lid, f, line = m.group(1), m.group(2), int(m.group(3))
        path = f if os.path.isabs(f) else os.path.normpath(os.path.join(HARNESS_DIR, f))
        try:
            src = open(path).read().split('\n')[line - 1]
        except Exception:
            src = ''
        n = None
        if 'MoveGenImpl' in lid or ('movegen' in lid and ('san_candidates' in lid or 'san_pawn_capture' in lid)):
            outer = 'for src in' in src
            if 'do_gen_brq' in lid:
                n = (kn + 2) if outer else 29            # sliders: kn pieces; <= 27 destinations
            elif 'do_gen_kn' in lid:
                n = (max(kn, 1) + 2) if outer else 10   # shared by king (1) and knights (kn); <= 8 destinations
            elif 'pawn' in lid:
                n = kp + 2                               # one destination per pawn and loop
            else:
                n = k + 2
        elif 'DefaultPrechecker' in lid and 'pinned' in lid:
            n = 6
        elif 'Walker' in lid and 'set_board_pos' in lid:
            n = kp + 2                                   # walker harnesses pass the chain length as kp
        elif 'retain' in lid or ('ArrayVec' in lid and 'drop' not in lid):
            n = 8 + 12 * kp + 27 * kn * 3 + 8 * kn + 10
        if n is not None:
            us.append('%s:%d' % (lid, n))
            notes.append('%s:%d (%s:%d %s)' % (lid[-40:], n, os.path.basename(f), line, src.strip()[:50]))
    return ','.join(us), notes
