"""Static registry: which harnesses decide which property, in which tier, under which caps.

Single source of truth for both sides: `tools/gen_registry.py` writes the Rust harness table
(`harness/src/registry_table.rs`) from HARNESSES, and the runner schedules from the same dict.
Tiers are fixed here, never chosen at run time.  cap_s = wall-clock cap of one harness
(exceeding it makes the run inconclusive, exit 2, never a pass); mem_gb = address-space limit
and scheduling weight.
"""

S1 = 'S1 attack::rook/bishop -> ray walk (equal by C15)'
S2 = 'S2 RawBoard::zobrist_hash -> arbitrary u64 (over-approximation)'
S3 = 'S3 movegen::has_legal_moves -> symbolic bool'
S4 = 'S4 core::str::from_utf8 -> reference UTF-8 automaton'
S5 = 'S5 Board::calc_outcome -> symbolic outcome'
S6 = 'S6 legal::Checker::is_legal -> abstract predicate'
S7 = 'S7 str::is_ascii -> byte loop'
STUBSETS = {'none': [], 'panics': [], 's1': [S1], 's12': [S1, S2], 's123': [S1, S2, S3], 's13': [S1, S3], 's4': [S4], 's47': [S4, S7], 's5': [S5],
            's126': [S1, S2, S6], 's1_utf8': [S1, S4], 's12_utf8': [S1, S2, S4]}

FULL = 'FULL = every position accepted by Board::try_from (64 symbolic cells, side, rights, e.p. mark, both counters)'

QT = ('quick', 'thorough')
T = ('thorough',)
NEVER = ()

HARNESSES = {}


def reg(name, prop, tiers, cap_s, mem_gb, domain, rust, stubset='none', unwind=2, bounds='', props=None, gen_k=None):
    assert name not in HARNESSES, name
    HARNESSES[name] = dict(prop=prop, tiers=tiers, cap_s=cap_s, mem_gb=mem_gb, domain=domain, rust=rust, stubset=stubset,
                           stubs=STUBSETS[stubset], unwind=unwind, bounds=bounds, panics=(stubset == 'panics'),
                           props=props or [prop], gen_k=gen_k)


SIDES = [('w', 'WHITE', 'White to move'), ('b', 'BLACK', 'Black to move')]
# move-kind groups: king..castling partition the non-null moves of the side to move; `foreign` =
# tuples whose cell is empty / of the other colour (harnesses over all well-formed tuples only)
GROUPS = [('king', 'KG_KING', 'king steps'), ('pawn', 'KG_PAWN', 'pawn single steps and captures'),
          ('knight', 'KG_KNIGHT', 'knight moves'), ('bishop', 'KG_BISHOP', 'bishop moves'), ('rook', 'KG_ROOK', 'rook moves'),
          ('queen', 'KG_QUEEN', 'queen moves'), ('pspecial', 'KG_PSPECIAL', 'double steps and promotions'),
          ('ep', 'KG_EP', 'en passant'), ('castling', 'KG_CASTLING', 'castling')]
NULLG = ('null', 'KG_NULL', 'null move')
FOREIGN = ('foreign', 'KG_FOREIGN', 'tuples naming an empty cell or a man of the side not to move')
SPECIAL = {'king', 'pspecial', 'ep', 'castling', 'null', 'foreign'}   # where the property texts locate the risk


HEAVY_GROUPS = {'castling', 'pspecial', 'foreign'}   # symbolic kind / attack checks: about twice the memory of the constant-kind groups


def fam(prefix, prop, rust_fn, stubset, unwind, cap_s, mem_gb, what, groups=GROUPS, quick=SPECIAL, props=None, tiers_all=None,
        extra_const='', light_mem=None):
    """one harness per (side, move-kind group); the cases are constant at symbolic-execution time"""
    for sk, sc, sd in SIDES:
        for gk, gc, gd in groups:
            t = tiers_all if tiers_all is not None else (QT if (quick == 'all' or gk in quick) else T)
            reg('%s_%s_%s' % (prefix, sk, gk), prop, t, cap_s, mem_gb if (light_mem is None or gk in HEAVY_GROUPS) else light_mem, '%s; %s; moves: %s' % (FULL, sd, gd),
                '%s::<_, %s, %s%s>' % (rust_fn, sc, gc, extra_const), stubset, unwind, props=props,
                bounds='all fixed 64-iteration loops fully unrolled; %s' % what)


def fam_side(prefix, prop, rust_fn, stubset, unwind, cap_s, mem_gb, domain, tiers=QT, props=None, bounds='', extra_const=''):
    for sk, sc, sd in SIDES:
        reg('%s_%s' % (prefix, sk), prop, tiers, cap_s, mem_gb, '%s; %s' % (domain, sd),
            '%s::<_, %s%s>' % (rust_fn, sc, extra_const), stubset, unwind, props=props, bounds=bounds)


# ---------------------------------------------------------------- C20
for n in ['index_roundtrip', 'as_char_roundtrip', 'castling_rights_model', 'bitboard_set_ops',
          'coord_geometry', 'bitboard_constants', 'geometry_table']:
    reg('c20_' + n, 'C20', QT, 300, 4, 'position-free, complete over the finite / 64-bit domain', 'c20::' + n)
reg('c20_char_forms', 'C20', QT, 300, 4, 'every Unicode scalar value', 'c20::char_forms', unwind=14)
reg('c20_bitboard_len', 'C20', QT, 600, 6, 'all 64-bit sets', 'c20::bitboard_len', unwind=65, bounds='64 iterations fully unrolled')
reg('c20_deposit_bits_exact', 'C20', QT, 900, 6, 'all 64-bit masks x all 64-bit values', 'c20::deposit_bits_exact', unwind=66,
    bounds='64 iterations fully unrolled')
reg('c20_bitboard_iter_16', 'C20', QT, 900, 8, 'all 64-bit sets with at most 16 members', 'c20::bitboard_iter::<_, 16>', unwind=18,
    bounds='sets with more than 16 members are decided by c20_bitboard_iter_step (one step from any state) only')
reg('c20_bitboard_iter_step', 'C20', QT, 300, 4, 'all 64-bit sets: one step of the iterator from any state', 'c20::bitboard_iter_step', unwind=65)
for n in ['file', 'rank', 'coord', 'piece', 'cell', 'castling']:
    reg('c20_%s_from_index_rejects' % n, 'C20', QT, 300, 4, 'every out-of-range usize', 'c20::%s_from_index_rejects' % n, 'panics')
reg('c20_coord_add_rejects', 'C20', QT, 300, 4, 'every (square, i8 delta) leaving the board', 'c20::coord_add_rejects', 'panics')

# ---------------------------------------------------------------- C15
reg('c15_leapers_exact', 'C15', QT, 300, 4, 'all 64 squares x both colours', 'c15::leapers_exact', unwind=9)
reg('c15_between_exact', 'C15', QT, 300, 4, 'all 64 x 64 square pairs', 'c15::between_exact', unwind=9)
reg('c15_bishop_exact', 'C15', QT, 900, 8, 'all 64 squares x all 2^64 occupancies (real table, real pointer arithmetic)',
    'c15::bishop_exact', unwind=9)
reg('c15_rook_exact', 'C15', T, 10800, 16, 'all 64 squares x all 2^64 occupancies (real table, real pointer arithmetic)',
    'c15::rook_exact', unwind=9)

# ---------------------------------------------------------------- C16
for sk, sc, sd in SIDES:
    for bk, bc in [('by_white', 0), ('by_black', 1)]:
        reg('c16_attackers_exact_%s_%s' % (sk, bk), 'C16', QT, 3000, 10, FULL + ' x 64 squares; attackers %s; %s' % (bk.replace('_', ' '), sd),
            'c16::attackers_exact::<_, %s, %d>' % (sc, bc), 's12', 65, props=['C16', 'C19'])
    reg('c16_check_queries_exact_%s' % sk, 'C16', QT, 3000, 10, FULL + '; is_check / checkers / is_opponent_king_attacked; ' + sd,
        'c16::check_queries_exact::<_, %s>' % sc, 's12', 65, props=['C16', 'C19'])

# ---------------------------------------------------------------- C06
reg('c06_wellformed_exact', 'C06', QT, 300, 4, 'all 10 x 13 x 64 x 64 move tuples (exhaustive)', 'c06::wellformed_exact', unwind=9)
fam('c06_semilegal_validator', 'C06', 'c06::semilegal_validator_exact', 's12', 65, 2400, 12, 'all well-formed tuples of the group',
    groups=GROUPS + [FOREIGN], quick='all', props=['C06', 'C19'], light_mem=4)
GENS = [('all', 'G_ALL'), ('capture', 'G_CAPTURE'), ('simple', 'G_SIMPLE'), ('simple_no_promote', 'G_SIMPLE_NO_PROMOTE'),
        ('simple_promote', 'G_SIMPLE_PROMOTE')]
GEN11 = ' + GEN(1): mover has at most one man of each non-king kind (opponent arbitrary); '
GEN20 = ' + GEN(2 pawns, 0 pieces): mover has king and at most two pawns (opponent arbitrary); '
for gk, gc in GENS:
    for sk, sc, sd in SIDES:
        reg('c06_semilegal_gen_%s_%s' % (gk, sk), 'C06', T, 7200, 16, FULL + GEN11 + sd, 'c06::semilegal_gen_exact::<_, %s, %s, 1, 1>' % (sc, gc), 's12', 65, gen_k=(1, 1),
            bounds='GEN(1); generator loops unwound per loop (unwindset derived from cbmc --show-loops)', props=['C06', 'C19', 'C01'])
for sk, sc, sd in SIDES:
    reg('c06_semilegal_gen_p1_capture_%s' % sk, 'C06', QT, 2400, 12, FULL + ' + GEN(1 pawn, 0 pieces): mover has king and at most one pawn (opponent arbitrary); capture generator; ' + sd,
        'c06::semilegal_gen_exact::<_, %s, G_CAPTURE, 1, 0>' % sc, 's12', 65, gen_k=(1, 0),
        bounds='GEN(1 pawn, 0 pieces): pawn captures, en passant and king captures only', props=['C06', 'C19', 'C01', 'C18'])
for gk, gc in [('all', 'G_ALL')]:
    for sk, sc, sd in SIDES:
        reg('c06_semilegal_gen_pawns_%s_%s' % (gk, sk), 'C06', QT, 3600, 20, FULL + GEN20 + sd, 'c06::semilegal_gen_exact::<_, %s, %s, 2, 0>' % (sc, gc), 's12', 65, gen_k=(2, 0),
            bounds='GEN(2 pawns, 0 pieces): pawn, en-passant, king and castling generation only', props=['C06', 'C19', 'C01', 'C18'])

# ---------------------------------------------------------------- C01
fam('c01_prefiltered', 'C01', 'c01::prefiltered_legal_exact', 's12', 65, 3600, 14, 'all semilegal moves of the group', props=['C01', 'C19'])
fam_side('c01_prefiltered_ep_king_on_rank', 'C01', 'c01::prefiltered_ep_king_on_rank', 's12', 65, 2400, 11, FULL + ' restricted to: en-passant captures with the mover\'s king on the rank of the two pawns')
fam('c01_validate', 'C01', 'c01::validate_exact', 's12', 65, 3600, 12, 'all well-formed tuples of the group', groups=GROUPS + [FOREIGN], quick=set())
fam('c01_try_unchecked', 'C01', 'c01::try_unchecked_exact', 's12', 65, 3600, 12, 'all semilegal moves of the group', quick=set())

for gk, gc in GENS:
    for sk, sc, sd in SIDES:
        reg('c01_legal_gen_list_%s_%s' % (gk, sk), 'C01', T, 10800, 24, FULL + ' + GEN(1); real legal::gen_%s (ArrayVec, retain) with the legality '
            'filter abstracted (S6); %s' % (gk, sd), 'c01::legal_gen_list::<_, %s, %s, 1, 1>' % (sc, gc), 's126', 65, gen_k=(1, 1),
            bounds='GEN(1); composition with c01_prefiltered (filter = rules) is a one-line argument, stated in DESIGN.md C01')

# ---------------------------------------------------------------- C03 / C04 / C05
fam('c03_make_unmake', 'C03', 'c03::make_unmake_exact', 's12', 65, 3600, 11, light_mem=7, what= 'all semilegal (legal or not) and null moves of the group',
    groups=GROUPS + [NULLG], props=['C03', 'C04', 'C05', 'C19'])
fam('c04_nested', 'C04', 'c03::nested_make_unmake', 's12', 65, 7200, 16, 'outer: legal moves of the group; inner: any semilegal or null move',
    quick=set())
fam('c05_hash_delta', 'C05', 'c05::hash_delta', 's12', 65, 3600, 8, light_mem=5, what= 'all semilegal and null moves of the group; arbitrary pre-state hash',
    groups=GROUPS + [NULLG])
reg('c05_hash_features', 'C05', QT, 600, 6, 'all keys of the build under test (position-free)', 'c05::hash_features', unwind=9)
reg('c05_scratch_hash_def', 'C05', QT, 2400, 14, 'every raw board (no validity assumption); real RawBoard::zobrist_hash',
    'c05::scratch_hash_def', unwind=65, props=['C05', 'C19'])

# ---------------------------------------------------------------- C11
for pk, pc, pd in [('accept', 1, 'acceptance <=> validity conditions; every error variant truthful'),
                   ('normal', 2, 'normal form, derived sets, stored hash of accepted boards'), ('idem', 3, 'validating the result again changes nothing')]:
    fam_side('c11_validate_' + pk, 'C11', 'c11::validate_exact', 's12', 65, 3600, 10, 'every raw board (13^64 cell assignments, rights, e.p. marks, counters): ' + pd,
             props=['C11', 'C19', 'C05'], extra_const=', %d' % pc)

# ---------------------------------------------------------------- C07
for hk, hc, hd in [('nomove', 0, "the probe answers 'no legal move'"), ('move', 1, "the probe answers 'has a legal move'")]:
    fam_side('c07_outcome_classification_' + hk, 'C07', 'c07::outcome_classification', 's123', 65, 3000, 9, FULL + '; ' + hd, props=['C07', 'C14'], extra_const=', %d' % hc)
fam_side('c07_outcome_lone_king', 'C07', 'c07::outcome_lone_king', 's123', 65, 3600, 14, FULL + ' restricted to: side to move has only its king (probe answer decided by the rules, realizable counterexamples)',
         props=['C07', 'C14'])
fam_side('c07_castling_never_only_move', 'C07', 'c07::castling_never_only_move', 's12', 65, 2400, 10, FULL + ' x both castlings')

for sk, sc, sd in SIDES:
    reg('c07_has_legal_moves_wiring_%s' % sk, 'C07', T, 10800, 24, FULL + ' + GEN(1); real has_legal_moves with the legality filter abstracted (S6); ' + sd,
        'c07::has_legal_moves_wiring::<_, %s, 1, 1>' % sc, 's126', 65, gen_k=(1, 1), bounds='GEN(1)', props=['C07', 'C01'])
    reg('c07_has_legal_moves_wiring_pawns_%s' % sk, 'C07', QT, 3600, 22, FULL + GEN20 + 'real has_legal_moves with the legality filter abstracted (S6); ' + sd,
        'c07::has_legal_moves_wiring::<_, %s, 2, 0>' % sc, 's126', 65, gen_k=(2, 0), bounds='GEN(2 pawns, 0 pieces)', props=['C07', 'C01'])

for sk, sc, sd in SIDES:
    reg('c07_has_legal_moves_direct_%s' % sk, 'C07', T, 5400, 28, FULL + ' + GEN(1 pawn, 0 pieces): mover has king and at most one pawn; real has_legal_moves with the real legality filter; ' + sd,
        'c07::has_legal_moves_direct::<_, %s, 1, 0>' % sc, 's12', 65, gen_k=(1, 0), bounds='GEN(1 pawn, 0 pieces)', props=['C07', 'C01'])
reg('c07_diag_wiring_semi_w', 'C07', NEVER, 1800, 16, 'diagnostic', 'c07::wiring_semi::<_, WHITE>', 's126', 65, gen_k=(2, 0), props=[])

# ---------------------------------------------------------------- C10
fam('c10_uci_struct_roundtrip', 'C10', 'c10::uci_struct_roundtrip', 's12', 65, 2400, 8, 'all semilegal moves of the group', quick='all', light_mem=5)
for part, pc, pd in [('semi', 'UA_SEMI', 'semilegal reader <=> a semilegal move with these fields exists'),
                     ('legal', 'UA_LEGAL', 'legal reader <=> a legal move with these fields exists'),
                     ('make', 'UA_MAKE', 'applying the value <=> the legal reader accepts; null never')]:
    fam_side('c10_uci_accept_' + part, 'C10', 'c10::uci_accept_exact', 's12', 65, 5400, 20, FULL + ' x every UCI move value (64 x 64 x 5 + null): ' + pd,
             props=['C10', 'C02'], extra_const=', {crate::c10::%s}' % pc)
reg('c10_uci_parse_exact', 'C10', QT, 600, 6, 'every well-formed UTF-8 string of at most 6 bytes', 'c10::uci_parse_exact', unwind=8,
    props=['C10', 'C12'])
reg('c10_uci_text_roundtrip', 'C10', T, 2400, 24, 'every UCI move value, through core::fmt', 'c10::uci_text_roundtrip', 's47', unwind=8,
    props=['C10', 'C12'])
fam_side('c10_uci_string_readers', 'C10', 'c10::uci_string_readers', 's12', 65, 3600, 14, FULL + ' x every UTF-8 string of at most 5 bytes',
         tiers=T, props=['C10', 'C02'])

# ---------------------------------------------------------------- C02
fam('c02_make_move_step', 'C02', 'c02::make_move_step', 's12', 65, 3600, 16, 'all well-formed tuples of the group; validity of the result via '
    'C11\'s conditions', groups=GROUPS + [FOREIGN], extra_const=', false')
fam('c02_make_raw_step', 'C02', 'c02::make_raw_step', 's12', 65, 3600, 16, 'all well-formed tuples of the group; Make::make_raw in place',
    groups=GROUPS + [FOREIGN], props=['C02', 'C04'])
fam('c02_make_move_step_direct', 'C02', 'c02::make_move_step', 's12', 65, 7200, 20, 'as c02_make_move_step, and the result is re-validated '
    'with the real Board::try_from', groups=[g for g in GROUPS if g[0] in ('ep', 'castling', 'pspecial', 'king')], quick=set(), extra_const=', true')

# ---------------------------------------------------------------- C09 (value level)
SANV = [('uci', 'V_UCI', 16), ('castling', 'V_CASTLING', 16), ('pawnmove', 'V_PAWN_MOVE', 16), ('pawncapture', 'V_PAWN_CAPTURE', 16),
        ('pawnshort', 'V_PAWN_SHORT', 2), ('simple', 'V_SIMPLE', 2)]
for vk, vc, k in SANV:
    for sk, sc, sd in SIDES:
        reg('c09_san_into_move_%s_%s' % (vk, sk), 'C09', T if vk in ('simple', 'pawnshort', 'uci') else QT, 5400, 16,
            FULL + ('' if k == 16 else ' + GEN(%d)' % k) + '; every san::Data value of variant %s; %s' % (vk, sd),
            'c09::san_into_move_sound::<_, %s, {crate::c09::%s}, %d>' % (sc, vc, k), 's12', 65 if k == 16 else 66,
            bounds='' if k == 16 else 'GEN(%d): at most %d own men per kind (candidate loop bound)' % (k, k), props=['C09', 'C02'])
for gk, gc, gd in GROUPS:
    for sk, sc, sd in SIDES:
        piece = gk in ('king', 'knight', 'bishop', 'rook', 'queen')
        k = 2 if piece and gk != 'king' else 16
        reg('c09_san_from_move_%s_%s' % (sk, gk), 'C09', QT if gk in ('ep', 'castling', 'pspecial') else T, 5400, 24,
            FULL + ('' if k == 16 else ' + GEN(2)') + '; legal moves: %s; %s' % (gd, sd),
            'c09::san_from_move::<_, %s, %s, %d>' % (sc, gc, k), 's123', 66,
            bounds='' if k == 16 else 'GEN(2): at most 2 own men per kind, so at most one competing candidate', props=['C09'])

reg('c09_san_simple_pawn_refused', 'C09', QT, 900, 8, 'the initial position x every Data::Simple value naming a pawn with destination e4 (any origin hints, capture flag)', 'c09::san_simple_pawn_refused', 's1', 66,
    props=['C09', 'C02'], gen_k=(1, 1))

# ---------------------------------------------------------------- C12
reg('c12_coord_parse', 'C12', QT, 300, 4, 'every UTF-8 string of at most 4 bytes', 'c12::coord_parse', unwind=8, props=['C12', 'C20'])
reg('c12_coord_roundtrip', 'C12', QT, 600, 6, 'all 64 squares through core::fmt', 'c12::coord_roundtrip', unwind=8, props=['C12', 'C20'])
reg('c12_color_parse', 'C12', QT, 600, 6, 'every UTF-8 string of at most 3 bytes', 'c12::color_parse', unwind=8, props=['C12', 'C20'])
reg('c12_cell_parse', 'C12', QT, 600, 6, 'every UTF-8 string of at most 3 bytes', 'c12::cell_parse', unwind=14, props=['C12', 'C20'])
reg('c12_castling_parse', 'C12', QT, 600, 6, 'every UTF-8 string of at most 6 bytes', 'c12::castling_parse', unwind=8, props=['C12', 'C20'])
reg('c12_castling_roundtrip', 'C12', QT, 900, 8, 'all 16 right sets through core::fmt', 'c12::castling_roundtrip', unwind=8, props=['C12', 'C20'])
reg('c12_san_parse_total_5', 'C12', QT, 900, 8, 'every UTF-8 string of at most 5 bytes', 'c12::san_parse_total::<_, 5>', 's47', 9, props=['C12', 'C09'])
reg('c12_san_parse_total_7', 'C12', T, 3600, 12, 'every UTF-8 string of at most 7 bytes', 'c12::san_parse_total::<_, 7>', 's47', 9, props=['C12', 'C09'])
reg('c12_fen_board_field_10', 'C12', T, 3600, 14, 'FEN family (a): every space-free UTF-8 string of at most 10 bytes as the whole record',
    'c12::fen_board_field::<_, 10>', unwind=12)
reg('c12_fen_board_end_5', 'C12', QT, 2400, 12, 'FEN family (c): 8/8/8/8/8/8/8/ followed by every space-free UTF-8 string of at most 5 bytes',
    'c12::fen_board_end::<_, 5>', unwind=16)
reg('c12_fen_tail_12', 'C12', T, 3600, 12, 'FEN family (b): board field 4k3/8/8/8/8/8/8/4K3 followed by every UTF-8 string of at most 12 bytes',
    'c12::fen_tail::<_, 12>', 's1', 66)

# ---------------------------------------------------------------- C13 / C14 / C17
KGCODE = {'king': 1, 'pawn': 2, 'knight': 3, 'bishop': 4, 'rook': 5, 'queen': 6, 'pspecial': 7, 'ep': 8, 'castling': 9, 'null': 10, 'foreign': 11}
# stated chain pre-states: (start, prefix) -> move-kind groups pushed there (plus 'uci' = any UCI value, 'other' = pop / outcome operations)
CHAIN_CASES = {
    (0, 0): ['castling', 'ep', 'pspecial', 'king', 'rook', 'pawn', 'foreign', 'null', 'uci', 'other'],
    (0, 1): ['king', 'other'], (0, 2): ['ep', 'other'], (0, 3): ['king', 'rook', 'other'],
    (1, 0): ['castling', 'ep', 'pspecial', 'king', 'uci', 'other'],
    (1, 1): ['king', 'rook', 'other'], (1, 3): ['king', 'other'],
    (2, 0): ['rook', 'king', 'castling', 'other'], (2, 1): ['king', 'other'],
    (3, 0): ['queen', 'king', 'other'], (4, 0): ['king', 'rook', 'castling', 'other'],
    (5, 0): ['knight', 'king', 'other'], (5, 3): ['knight', 'other'], (5, 4): ['knight', 'king', 'other'],
}
for (st, pre), ops in CHAIN_CASES.items():
    for ok in ops:
        code = {'uci': 20, 'other': 30}.get(ok) or KGCODE[ok]
        what = 'push of any move of group ' + ok if code < 20 else ('push of any UCI value' if code == 20 else 'pop / set / clear / reset / automatic outcome')
        # flags: bit 1 = calculated outcome compared afterwards, bit 2 = repetition table compared
        variants = [('', 0)] if code < 30 else [('', 2)]
        if code < 20 and ok in ('castling', 'ep', 'queen', 'knight', 'king'):
            variants.append(('_rep', 4))
        for suffix, flags in variants:
            reg('c13_chain_step_s%d_p%d_%s%s' % (st, pre, ok, suffix), 'C13', T, 3600, (12 if pre < 3 else 22) if code == 30 else (16 if pre < 3 else 24),
                'chain state = stated start position %d after stated concrete prefix %d; one symbolic operation (%s)%s'
                % (st, pre, what, (', calculated outcome compared' if flags & 2 else '') + (', repetition table compared' if flags & 4 else '')),
                'c13::chain_step::<_, %d, %d, %d, %d>' % (st, pre, code, flags), 's13', 66,
                bounds='pre-states from the stated finite sets START x PREFIX; BaseMoveChain<ArrRepeat>; two or more symbolic pushes are outside',
                props=['C13', 'C14'])
        if code < 20:
            reg('c13_chain_push_pop_s%d_p%d_%s' % (st, pre, ok), 'C13', T, 3600, 14,
                'chain state = stated start position %d after stated concrete prefix %d; push of any move of group %s, popped again if accepted' % (st, pre, ok),
                'c13::chain_push_pop::<_, %d, %d, %d>' % (st, pre, code), 's13', 66,
                bounds='pre-states from the stated finite sets START x PREFIX; BaseMoveChain<ArrRepeat>', props=['C13', 'C04'])
for st, gk, variants in [(0, 'pawn', (0, 1, 3)), (0, 'king', (0, 2)), (0, 'castling', (0, 2)), (1, 'pspecial', (0, 1)), (5, 'knight', (0, 3))]:
    for v in variants:
        vd = ['the same start', 'the same squares with another half-move clock', 'the same squares without the mover\'s castling rights', 'another stated position'][v]
        reg('c13_chain_eq_s%d_%s_v%d' % (st, gk, v), 'C13', T, 3600, 16, 'chain 1: stated start %d + one symbolic push of group %s; chain 2: %s + optionally a stated concrete move; outcomes symbolic'
            % (st, gk, vd), 'c13::chain_eq::<_, %d, %d, %d>' % (st, KGCODE[gk], v), 's13', 66)
WALK_LEN = {(5, 3): 4, (0, 3): 2, (5, 4): 8, (1, 3): 2, (0, 1): 1}
def _seq(ops):
    """concrete walker operations -> base-5 code (1 next, 2 prev, 3 start, 4 end), least significant digit first"""
    code = 0
    for o in reversed(ops):
        code = code * 5 + {'next': 1, 'prev': 2, 'start': 3, 'end': 4}[o]
    return code


for st, pre, gk, ops, nops in [(5, 3, None, ['next', 'next', 'end'], 1), (0, 3, None, ['next'], 1), (0, 3, None, ['end', 'prev'], 1), (5, 3, None, ['next', 'next'], 2),
                               (0, 1, 'king', ['next'], 1), (1, 3, None, [], 2)]:
    ln = WALK_LEN[(st, pre)] + (1 if gk else 0)
    reg('c17_walker_s%d_p%d_%s_%s_%d' % (st, pre, gk or 'concrete', ''.join(o[0] for o in ops) or 'x', nops), 'C17', T, 3600, 10 if nops < 2 else 22,
        'stated chain of %d moves (start %d, prefix %d)%s; concrete walker operations %s, then %d symbolic operation(s) from {next, prev, start, end}'
        % (ln, st, pre, ' extended by one symbolic accepted move of group ' + gk if gk else '', ops, nops),
        'c13::walker_steps::<_, %d, %d, %d, %d, %d>' % (st, pre, KGCODE[gk] if gk else 0, _seq(ops), nops), 's13', 66,
        bounds='chain of %d moves; %d symbolic walker operation(s) after the stated concrete ones' % (ln, nops),
        props=['C17', 'C04'], gen_k=(ln, 0))
reg('c14_outcome_filter_table', 'C14', QT, 300, 4, 'all outcomes x 3 filters (exhaustive)', 'c14::outcome_filter_table')
reg('c14_chain_outcome_precedence', 'C14', QT, 900, 8, 'all board outcomes x every usize count x 3 filters', 'c14::chain_outcome_precedence', 's5', 66)

# ---------------------------------------------------------------- C18
for hk, hc in [('v', 'MV'), ('h', 'MH')]:
    for gk, gc, gd in GROUPS + [FOREIGN]:
        for sk, sc, sd in SIDES:
            reg('c18_mirror_move_%s_%s_%s' % (hk, sk, gk), 'C18', QT if (gk in ('ep', 'castling') and hk == 'v') or (gk == 'pspecial' and hk == 'h') else T, 7200, 16,
                FULL + '; %s; moves: %s; mirror: %s' % (sd, gd, 'top-bottom + colours' if hk == 'v' else 'left-right (no castling rights)'),
                'c18::mirror_move::<_, %s, %s, {crate::c18::%s}>' % (sc, gc, hc), 's12', 65)
    for sk, sc, sd in SIDES:
        reg('c18_mirror_outcome_%s_%s' % (hk, sk), 'C18', QT, 5400, 14, FULL + '; ' + sd, 'c18::mirror_outcome_eq::<_, %s, {crate::c18::%s}>' % (sc, hc), 's123', 65)
        reg('c18_mirror_gen_%s_%s' % (hk, sk), 'C18', T, 10800, 24, FULL + ' + GEN(1); ' + sd, 'c18::mirror_gen::<_, %s, {crate::c18::%s}, 1, 1>' % (sc, hc), 's12', 65, gen_k=(1, 1),
            bounds='GEN(1)')

PROPS = ['C%02d' % i for i in range(1, 21)]


# ---------------------------------------------------------------- scheduling weights calibrated from measured resident memory
import fnmatch as _fn
MEM_OVERRIDE = [
    ('c20_*', 2), ('c12_co*', 2), ('c12_cell_parse', 2), ('c12_castling_*', 3), ('c12_san_parse_total_5', 6), ('c14_*', 2), ('c15_leapers_exact', 1), ('c15_between_exact', 1),
    ('c15_bishop_exact', 3), ('c10_uci_parse_exact', 1), ('c06_wellformed_exact', 1), ('c05_hash_features', 1),
    ('c06_semilegal_validator_?_king', 3), ('c06_semilegal_validator_?_pawn', 3), ('c06_semilegal_validator_?_knight', 3), ('c06_semilegal_validator_?_bishop', 3),
    ('c06_semilegal_validator_?_rook', 3), ('c06_semilegal_validator_?_queen', 3), ('c06_semilegal_validator_?_ep', 3),
    ('c03_make_unmake_?_null', 5), ('c05_hash_delta_?_null', 4), ('c05_hash_delta_?_ep', 4), ('c05_hash_delta_?_castling', 7), ('c05_hash_delta_?_pspecial', 7),
    ('c10_uci_struct_roundtrip_*', 4), ('c07_castling_never_only_move_?', 7), ('c07_outcome_classification_*', 9),
    ('c09_san_into_move_castling_?', 19), ('c09_san_simple_pawn_refused', 14), ('c16_attackers_exact_*', 7), ('c16_check_queries_exact_?', 9),
    ('c01_try_unchecked_*', 8), ('c01_validate_*', 10), ('c01_prefiltered_*', 11), ('c02_make_raw_step_*', 12), ('c02_make_move_step_?_*', 12),
    ('c11_validate_*', 9), ('c13_chain_push_pop_*', 9), ('c13_chain_step_s?_p?_other', 10), ('c18_mirror_outcome_*', 7), ('c18_mirror_move_*', 18), ('c05_scratch_hash_def', 12),
]
for _n, _h in HARNESSES.items():
    for _pat, _gb in MEM_OVERRIDE:
        if _fn.fnmatchcase(_n, _pat):
            _h['mem_gb'] = _gb
            break

# ---------------------------------------------------------------- quick tier: fixed sets per property
# (the special-move / king cases where the property texts and the seeded changes locate the risk, plus the cheap
#  complete harnesses; everything else of the property is decided in the thorough tier only and named there)
def _g(prefix, pairs):
    return ['%s_%s_%s' % (prefix, sd, g) for sd, g in pairs]


# The quick command of a property must finish within 900 s wall on a fresh sandbox (measured limit of the
# evaluation harness), so every harness here was measured at <= ~600 s single and the whole set runs in ONE wave
# within the memory budget.  Heavier cases of the same families (e.g. the prefiltered decision for en passant,
# 20 min) are thorough-tier only; the evidence of the quick run names them.
QUICK = {
    'C01': ['c01_prefiltered_ep_king_on_rank_w', 'c01_prefiltered_ep_king_on_rank_b', 'c01_validate_w_ep', 'c01_try_unchecked_b_ep',
            'c06_semilegal_validator_w_castling'],
    'C02': ['c02_make_raw_step_w_castling', 'c02_make_raw_step_b_pspecial', 'c09_san_simple_pawn_refused', 'c10_uci_parse_exact', 'c13_chain_push_pop_s1_p0_ep'],
    'C03': _g('c03_make_unmake', [('w', 'ep'), ('b', 'ep'), ('w', 'castling'), ('b', 'pspecial'), ('b', 'king'), ('w', 'queen')]),
    'C04': _g('c03_make_unmake', [('w', 'null'), ('b', 'null'), ('b', 'castling'), ('w', 'pspecial'), ('b', 'ep'), ('w', 'rook')]),
    'C05': ['c05_hash_features', 'c05_scratch_hash_def'] + _g('c05_hash_delta', [('w', 'castling'), ('b', 'ep'), ('w', 'pspecial'), ('b', 'null')])
           + ['c03_make_unmake_b_pspecial'],
    'C06': ['c06_wellformed_exact'] + _g('c06_semilegal_validator', [('w', 'king'), ('w', 'pawn'), ('b', 'knight'), ('b', 'bishop'), ('w', 'rook'), ('b', 'queen'),
            ('w', 'ep'), ('b', 'ep'), ('w', 'castling'), ('b', 'castling')]),
    'C07': ['c07_outcome_classification_nomove_w', 'c07_outcome_classification_move_b', 'c07_castling_never_only_move_w', 'c07_castling_never_only_move_b'],
    'C09': ['c09_san_simple_pawn_refused', 'c12_san_parse_total_7'],
    'C10': _g('c10_uci_struct_roundtrip', [('w', 'king'), ('w', 'pawn'), ('w', 'pspecial'), ('w', 'ep'), ('w', 'castling'), ('b', 'knight'), ('b', 'bishop'), ('b', 'rook'),
            ('b', 'queen'), ('b', 'ep')]) + ['c10_uci_parse_exact'],
    'C11': ['c11_validate_accept_w', 'c11_validate_accept_b', 'c11_validate_normal_w', 'c11_validate_idem_b'],
    'C12': ['c12_coord_parse', 'c12_coord_roundtrip', 'c12_color_parse', 'c12_cell_parse', 'c12_castling_parse', 'c12_castling_roundtrip',
            'c12_san_parse_total_7', 'c10_uci_parse_exact'],
    'C13': ['c13_chain_step_s0_p2_other', 'c13_chain_push_pop_s1_p0_ep', 'c13_chain_push_pop_s0_p0_castling', 'c13_chain_step_s3_p0_other'],
    'C14': ['c14_outcome_filter_table', 'c14_chain_outcome_precedence', 'c13_chain_step_s3_p0_other', 'c13_chain_step_s0_p2_other', 'c07_outcome_classification_move_w'],
    'C15': ['c15_leapers_exact', 'c15_between_exact', 'c15_bishop_exact'],
    'C16': ['c16_attackers_exact_w_by_white', 'c16_attackers_exact_w_by_black', 'c16_attackers_exact_b_by_white', 'c16_attackers_exact_b_by_black',
            'c16_check_queries_exact_w'],
    'C17': ['c17_walker_s5_p3_concrete_nne_1', 'c17_walker_s0_p3_concrete_n_1'],
    'C18': ['c18_mirror_outcome_v_w', 'c18_mirror_outcome_h_b'],
    'C19': ['c15_bishop_exact', 'c16_attackers_exact_w_by_black', 'c06_semilegal_validator_b_castling', 'c06_semilegal_validator_w_ep',
            'c03_make_unmake_b_pspecial', 'c11_validate_accept_b'],
}
# ---------------------------------------------------------------- thorough tier: fixed sets per property (patterns)
# sized to finish within roughly 60-120 min on 16 cores / 62 GB (memory, not cores, is the limit); what a property's
# harness families contain beyond these sets is listed in evidence as "not run in any tier" and is outside the claim
THOROUGH = {
    # only families with at least one instance that passed on the pinned tree within its caps are listed; harnesses that
    # exist but are listed nowhere (S6 wiring / legal lists, direct probe, FEN, chain equality, long walkers, SAN candidate
    # search for Simple / PawnCaptureShort) did not fit or are unsound and claim nothing (DESIGN.md sections 6 and 8)
    'C01': ['c01_prefiltered_ep_king_on_rank_?', 'c01_prefiltered_w_*', 'c01_prefiltered_b_ep', 'c01_prefiltered_b_castling', 'c01_prefiltered_b_king', 'c01_prefiltered_b_pspecial',
            'c01_validate_?_ep', 'c01_validate_w_castling', 'c01_validate_b_king', 'c01_try_unchecked_?_ep', 'c01_try_unchecked_b_castling',
            'c06_semilegal_gen_pawns_all_?', 'c06_semilegal_gen_all_w'],
    'C02': ['c02_make_move_step_w_ep', 'c02_make_move_step_w_castling', 'c02_make_move_step_w_pspecial', 'c02_make_move_step_w_king', 'c02_make_move_step_b_ep',
            'c02_make_move_step_b_castling', 'c02_make_move_step_b_foreign', 'c02_make_raw_step_w_*', 'c02_make_raw_step_b_ep', 'c02_make_raw_step_b_pspecial',
            'c02_make_raw_step_b_foreign', 'c09_san_simple_pawn_refused', 'c09_san_into_move_castling_?',
            'c10_uci_accept_semi_w', 'c10_uci_parse_exact', 'c13_chain_push_pop_s0_p0_castling', 'c13_chain_push_pop_s1_p0_ep',
            'c13_chain_step_s0_p0_castling'],
    'C03': ['c03_make_unmake_*'],
    'C04': ['c03_make_unmake_*', 'c13_chain_push_pop_s0_p0_castling', 'c13_chain_push_pop_s1_p0_ep'],
    'C05': ['c05_hash_features', 'c05_scratch_hash_def', 'c05_hash_delta_*', 'c03_make_unmake_?_pspecial', 'c03_make_unmake_?_ep', 'c03_make_unmake_?_castling',
            'c11_validate_normal_w'],
    'C06': ['c06_wellformed_exact', 'c06_semilegal_validator_*', 'c06_semilegal_gen_pawns_all_?', 'c06_semilegal_gen_p1_capture_?', 'c06_semilegal_gen_all_w'],
    'C07': ['c07_outcome_classification_*', 'c07_outcome_lone_king_?', 'c07_castling_never_only_move_?'],
    'C09': ['c09_san_simple_pawn_refused', 'c09_san_into_move_castling_?', 'c12_san_parse_total_5', 'c12_san_parse_total_7'],
    'C10': ['c10_uci_struct_roundtrip_*', 'c10_uci_accept_semi_?', 'c10_uci_parse_exact', 'c10_uci_text_roundtrip'],
    'C11': ['c11_validate_*'],
    'C12': ['c12_coord_*', 'c12_color_parse', 'c12_cell_parse', 'c12_castling_*', 'c12_san_parse_total_*', 'c10_uci_parse_exact', 'c10_uci_text_roundtrip'],
    'C13': ['c13_chain_step_s0_p0_castling', 'c13_chain_step_s0_p0_ep', 'c13_chain_step_s0_p0_pspecial', 'c13_chain_step_s0_p0_king', 'c13_chain_step_s0_p0_other',
            'c13_chain_step_s0_p1_other', 'c13_chain_step_s0_p2_other', 'c13_chain_step_s1_p0_castling', 'c13_chain_step_s1_p0_ep', 'c13_chain_step_s1_p0_other',
            'c13_chain_step_s1_p1_other', 'c13_chain_step_s2_p0_rook', 'c13_chain_step_s2_p0_other', 'c13_chain_step_s3_p0_queen', 'c13_chain_step_s3_p0_other',
            'c13_chain_step_s4_p0_king', 'c13_chain_step_s4_p0_other', 'c13_chain_step_s5_p0_other', 'c13_chain_push_pop_s0_p0_castling', 'c13_chain_push_pop_s0_p0_ep',
            'c13_chain_push_pop_s0_p0_pspecial', 'c13_chain_push_pop_s0_p0_king', 'c13_chain_push_pop_s1_p0_ep', 'c13_chain_push_pop_s1_p0_castling'],
    'C14': ['c14_*', 'c07_outcome_classification_*', 'c07_outcome_lone_king_b', 'c13_chain_step_s3_p0_other', 'c13_chain_step_s0_p2_other', 'c13_chain_step_s5_p0_other',
            'c13_chain_step_s2_p0_other'],
    'C15': ['c15_*'],
    'C16': ['c16_*'],
    'C17': ['c17_walker_s5_p3_concrete_nne_1', 'c17_walker_s0_p3_concrete_n_1', 'c17_walker_s0_p3_concrete_ep_1'],
    'C18': ['c18_mirror_move_v_?_ep', 'c18_mirror_move_v_w_king', 'c18_mirror_move_h_w_pspecial', 'c18_mirror_outcome_*', 'c06_semilegal_gen_pawns_all_?', 'c06_semilegal_gen_p1_capture_?'],
    'C19': ['c15_bishop_exact', 'c15_rook_exact', 'c05_scratch_hash_def', 'c16_attackers_exact_w_*', 'c16_check_queries_exact_b', 'c06_semilegal_validator_?_castling',
            'c06_semilegal_validator_?_ep', 'c06_semilegal_validator_w_queen', 'c06_semilegal_validator_b_pspecial', 'c03_make_unmake_?_pspecial',
            'c03_make_unmake_?_castling', 'c03_make_unmake_w_ep', 'c06_semilegal_gen_pawns_all_?', 'c11_validate_accept_?', 'c01_prefiltered_w_queen'],
    'C20': ['c20_*', 'c12_coord_*', 'c12_color_parse', 'c12_cell_parse', 'c12_castling_*'],
}


QUICK['C20'] = [n for n in HARNESSES if n.startswith('c20_')] + ['c12_coord_parse', 'c12_color_parse', 'c12_cell_parse', 'c12_castling_parse']


def harnesses_for(prop, tier):
    import fnmatch
    if tier == 'quick':
        for n in QUICK.get(prop, []):
            assert n in HARNESSES, n
        return list(QUICK.get(prop, [n for n in HARNESSES if fnmatch.fnmatch(n, prop.lower() + '_*')]))
    names = []
    for pat in THOROUGH.get(prop, []):
        hit = [n for n in HARNESSES if fnmatch.fnmatchcase(n, pat)]
        assert hit, (prop, pat)
        names += [n for n in hit if n not in names]
    for n in QUICK.get(prop, []):      # thorough is a superset of quick
        if n not in names:
            names.append(n)
    return names


def family_rest(prop, tier_names):
    """harnesses that exist for the property's families but are run in no tier (named in the evidence)"""
    run = set(harnesses_for(prop, 'thorough'))
    return sorted(n for n, h in HARNESSES.items() if prop in h['props'] and n not in run)


# properties that also run engine B (MIR -> SMT-LIB)
ENGINE_B = {'C15'}

# prose: what lies outside the bounds of each property's check (copied into the evidence)
GENO = ('generator-level clauses only within GEN bounds (quick: mover = king + at most two pawns; thorough: at most one man of each non-king kind; opponent '
        'arbitrary); positions where the mover has more men of a kind are outside for generator clauses; ')
OUTSIDE = {
    'C01': GENO + 'per-move clauses are complete over all valid positions for the cases of the tier (quick: the prefiltered decision for en passant with the king on the pawns\' rank, validate / apply-then-test for en passant, the castling validator; thorough: all cases of the prefiltered decision, selected cases of validate / apply-then-test); legal list = semilegal list + retain(filter) is read, not solved',
    'C02': 'SAN candidate search within GEN(2); UCI strings > 6 bytes, SAN strings > 7 bytes; two or more symbolic chain operations in sequence; MoveChain<HashRepeat> (HashMap) itself',
    'C03': 'nothing beyond the case list of the tier (thorough runs every case = all legal moves of all valid positions)',
    'C04': 'nesting deeper than 2 is covered by induction on the one-step lemma, not by unrolling',
    'C05': 'hash collisions between different positions; the cancellation argument (frame + delta) is outside the solver',
    'C06': GENO + 'validator and well-formedness clauses are complete',
    'C07': 'classification is complete over all valid positions given the probe answer; has_legal_moves <=> a legal move exists is NOT decided (S6 wiring harness unsound, direct harness does not fit)',
    'C09': 'quick: parser totality (<= 7 bytes) and refusal of Simple{Pawn}; thorough adds into_move soundness for castling values. NOT decided: text rendering (core::fmt), the exact parser grammar, into_move for the candidate-searching variants and from_move (harnesses exceed 24 GB / the caps), SAN strings > 7 bytes',
    'C10': 'UCI strings > 6 bytes (rejected by the length test inside the bound)',
    'C11': 'nothing: every raw board',
    'C12': 'strings longer than the per-parser bound; FEN records and UCI move lists (harnesses do not fit); re-formatting of SAN and FEN values',
    'C13': 'pre-states outside START x PREFIX; two or more symbolic operations; HashRepeat',
    'C14': 'as C13; the repetition count is universally quantified only in the precedence harness',
    'C15': 'strictly-between values for non-aligned pairs (unspecified, unused)',
    'C16': 'nothing: every valid position x square x colour',
    'C18': GENO + 'per-move clauses for the cases of the tier',
    'C19': 'the 256-move bound beyond GEN bounds; machine-code effects of undefined behaviour',
    'C20': 'iteration over sets with more than 16 members is decided by the one-step lemma + induction',
}
# per-property method assumptions (besides stubs)
ASSUME = {
    'C02': ['validity of the successor is asserted through C11\'s conditions (validate_ref, normalise_ref); the direct try_from form runs in the thorough tier',
            'history clause: induction over the one-step lemmas (DESIGN.md section 4)'],
    'C04': ['arbitrary nesting depth: induction on the one-step lemma (DESIGN.md section 4)'],
    'C05': ['frame + delta => scratch(after) = scratch(before) ^ delta: algebraic step outside the solver'],
    'C01': ['legal list = semilegal list filtered by A (S6) composed with A = rules (prefiltered_legal_exact): one-line argument outside the solver'],
    'C07': ['has_legal_moves <=> exists legal move: S6 wiring + filter exactness (C01) + castling lemma'],
    'C13': ['BaseMoveChain<ArrRepeat>; transfers to HashRepeat assuming HashMap is a correct map and no Zobrist collision within a game'],
    'C14': ['as C13'],
}
