"""Static registry: which harnesses decide which property, in which tier, under which caps.

Single source of truth for both sides: `tools/gen_registry.py` writes the Rust harness table
(`harness/src/registry_table.rs`) from HARNESSES, and the runner schedules from the same dict.
Tiers are fixed here, never chosen at run time.  cap_s = wall-clock cap of one harness
(exceeding it makes the run inconclusive, exit 2, never a pass); mem_gb = address-space limit
and scheduling weight.
"""

S1 = 'S1 attack::rook/bishop -> ray walk (equal by C15)'
S2 = 'S2 RawBoard::zobrist_hash -> arbitrary u64 (over-approximation)'
S3 = 'S3 movegen::has_legal_moves -> symbolic bool'
S4 = 'S4 core::str::from_utf8 -> reference UTF-8 automaton'
S5 = 'S5 Board::calc_outcome -> symbolic outcome'
S6 = 'S6 legal::Checker::is_legal -> abstract predicate'
STUBSETS = {'none': [], 'panics': [], 's1': [S1], 's12': [S1, S2], 's123': [S1, S2, S3], 's13': [S1, S3], 's4': [S4], 's5': [S5],
            's126': [S1, S2, S6], 's1_utf8': [S1, S4], 's12_utf8': [S1, S2, S4]}

FULL = 'FULL = every position accepted by Board::try_from (64 symbolic cells, side, rights, e.p. mark, both counters)'

QT = ('quick', 'thorough')
T = ('thorough',)
NEVER = ()

HARNESSES = {}


def reg(name, prop, tiers, cap_s, mem_gb, domain, rust, stubset='none', unwind=2, bounds='', props=None, gen_k=None):
    assert name not in HARNESSES, name
    HARNESSES[name] = dict(prop=prop, tiers=tiers, cap_s=cap_s, mem_gb=mem_gb, domain=domain, rust=rust, stubset=stubset,
                           stubs=STUBSETS[stubset], unwind=unwind, bounds=bounds, panics=(stubset == 'panics'),
                           props=props or [prop], gen_k=gen_k)


SIDES = [('w', 'WHITE', 'White to move'), ('b', 'BLACK', 'Black to move')]
# move-kind groups: king..castling partition the non-null moves of the side to move; `foreign` =
# tuples whose cell is empty / of the other colour (harnesses over all well-formed tuples only)
GROUPS = [('king', 'KG_KING', 'king steps'), ('pawn', 'KG_PAWN', 'pawn single steps and captures'),
          ('knight', 'KG_KNIGHT', 'knight moves'), ('bishop', 'KG_BISHOP', 'bishop moves'), ('rook', 'KG_ROOK', 'rook moves'),
          ('queen', 'KG_QUEEN', 'queen moves'), ('pspecial', 'KG_PSPECIAL', 'double steps and promotions'),
          ('ep', 'KG_EP', 'en passant'), ('castling', 'KG_CASTLING', 'castling')]
NULLG = ('null', 'KG_NULL', 'null move')
FOREIGN = ('foreign', 'KG_FOREIGN', 'tuples naming an empty cell or a man of the side not to move')
SPECIAL = {'king', 'pspecial', 'ep', 'castling', 'null', 'foreign'}   # where the property texts locate the risk


def fam(prefix, prop, rust_fn, stubset, unwind, cap_s, mem_gb, what, groups=GROUPS, quick=SPECIAL, props=None, tiers_all=None,
        extra_const=''):
    """one harness per (side, move-kind group); the cases are constant at symbolic-execution time"""
    for sk, sc, sd in SIDES:
        for gk, gc, gd in groups:
            t = tiers_all if tiers_all is not None else (QT if (quick == 'all' or gk in quick) else T)
            reg('%s_%s_%s' % (prefix, sk, gk), prop, t, cap_s, mem_gb, '%s; %s; moves: %s' % (FULL, sd, gd),
                '%s::<_, %s, %s%s>' % (rust_fn, sc, gc, extra_const), stubset, unwind, props=props,
                bounds='all fixed 64-iteration loops fully unrolled; %s' % what)


def fam_side(prefix, prop, rust_fn, stubset, unwind, cap_s, mem_gb, domain, tiers=QT, props=None, bounds='', extra_const=''):
    for sk, sc, sd in SIDES:
        reg('%s_%s' % (prefix, sk), prop, tiers, cap_s, mem_gb, '%s; %s' % (domain, sd),
            '%s::<_, %s%s>' % (rust_fn, sc, extra_const), stubset, unwind, props=props, bounds=bounds)


# ---------------------------------------------------------------- C20
for n in ['index_roundtrip', 'as_char_roundtrip', 'castling_rights_model', 'bitboard_set_ops',
          'coord_geometry', 'bitboard_constants', 'geometry_table']:
    reg('c20_' + n, 'C20', QT, 300, 4, 'position-free, complete over the finite / 64-bit domain', 'c20::' + n)
reg('c20_char_forms', 'C20', QT, 300, 4, 'every Unicode scalar value', 'c20::char_forms', unwind=14)
reg('c20_bitboard_len', 'C20', QT, 600, 6, 'all 64-bit sets', 'c20::bitboard_len', unwind=65, bounds='64 iterations fully unrolled')
reg('c20_deposit_bits_exact', 'C20', QT, 900, 6, 'all 64-bit masks x all 64-bit values', 'c20::deposit_bits_exact', unwind=66,
    bounds='64 iterations fully unrolled')
reg('c20_bitboard_iter_16', 'C20', QT, 900, 8, 'all 64-bit sets with at most 16 members', 'c20::bitboard_iter::<_, 16>', unwind=18,
    bounds='sets with more than 16 members are decided by c20_bitboard_iter_step (one step from any state) only')
reg('c20_bitboard_iter_step', 'C20', QT, 300, 4, 'all 64-bit sets: one step of the iterator from any state', 'c20::bitboard_iter_step', unwind=65)
for n in ['file', 'rank', 'coord', 'piece', 'cell', 'castling']:
    reg('c20_%s_from_index_rejects' % n, 'C20', QT, 300, 4, 'every out-of-range usize', 'c20::%s_from_index_rejects' % n, 'panics')
reg('c20_coord_add_rejects', 'C20', QT, 300, 4, 'every (square, i8 delta) leaving the board', 'c20::coord_add_rejects', 'panics')

# ---------------------------------------------------------------- C15
reg('c15_leapers_exact', 'C15', QT, 300, 4, 'all 64 squares x both colours', 'c15::leapers_exact', unwind=9)
reg('c15_between_exact', 'C15', QT, 300, 4, 'all 64 x 64 square pairs', 'c15::between_exact', unwind=9)
reg('c15_bishop_exact', 'C15', QT, 900, 8, 'all 64 squares x all 2^64 occupancies (real table, real pointer arithmetic)',
    'c15::bishop_exact', unwind=9)
reg('c15_rook_exact', 'C15', T, 5400, 16, 'all 64 squares x all 2^64 occupancies (real table, real pointer arithmetic)',
    'c15::rook_exact', unwind=9)

# ---------------------------------------------------------------- C16
fam_side('c16_attackers_exact', 'C16', 'c16::attackers_exact', 's12', 65, 3000, 12, FULL + ' x 64 squares x 2 colours',
         props=['C16', 'C19'])

# ---------------------------------------------------------------- C06
reg('c06_wellformed_exact', 'C06', QT, 300, 4, 'all 10 x 13 x 64 x 64 move tuples (exhaustive)', 'c06::wellformed_exact', unwind=9)
fam('c06_semilegal_validator', 'C06', 'c06::semilegal_validator_exact', 's12', 65, 2400, 10, 'all well-formed tuples of the group',
    groups=GROUPS + [FOREIGN], quick='all', props=['C06', 'C19'])
GENS = [('all', 'G_ALL'), ('capture', 'G_CAPTURE'), ('simple', 'G_SIMPLE'), ('simple_no_promote', 'G_SIMPLE_NO_PROMOTE'),
        ('simple_promote', 'G_SIMPLE_PROMOTE')]
GEN11 = ' + GEN(1): mover has at most one man of each non-king kind (opponent arbitrary); '
GEN20 = ' + GEN(2 pawns, 0 pieces): mover has king and at most two pawns (opponent arbitrary); '
for gk, gc in GENS:
    for sk, sc, sd in SIDES:
        reg('c06_semilegal_gen_%s_%s' % (gk, sk), 'C06', T, 7200, 16, FULL + GEN11 + sd, 'c06::semilegal_gen_exact::<_, %s, %s, 1, 1>' % (sc, gc), 's12', 65, gen_k=1,
            bounds='GEN(1); generator loops unwound per loop (unwindset derived from cbmc --show-loops)', props=['C06', 'C19', 'C01'])
for gk, gc in [('all', 'G_ALL')]:
    for sk, sc, sd in SIDES:
        reg('c06_semilegal_gen_pawns_%s_%s' % (gk, sk), 'C06', QT, 3600, 12, FULL + GEN20 + sd, 'c06::semilegal_gen_exact::<_, %s, %s, 2, 0>' % (sc, gc), 's12', 65, gen_k=2,
            bounds='GEN(2 pawns, 0 pieces): pawn, en-passant, king and castling generation only', props=['C06', 'C19', 'C01', 'C18'])

# ---------------------------------------------------------------- C01
fam('c01_prefiltered', 'C01', 'c01::prefiltered_legal_exact', 's12', 65, 3600, 14, 'all semilegal moves of the group', props=['C01', 'C19'])
fam('c01_validate', 'C01', 'c01::validate_exact', 's12', 65, 3600, 12, 'all well-formed tuples of the group', groups=GROUPS + [FOREIGN], quick=set())
fam('c01_try_unchecked', 'C01', 'c01::try_unchecked_exact', 's12', 65, 3600, 12, 'all semilegal moves of the group', quick=set())

for gk, gc in GENS:
    for sk, sc, sd in SIDES:
        reg('c01_legal_gen_list_%s_%s' % (gk, sk), 'C01', T, 10800, 24, FULL + ' + GEN(1); real legal::gen_%s (ArrayVec, retain) with the legality '
            'filter abstracted (S6); %s' % (gk, sd), 'c01::legal_gen_list::<_, %s, %s, 1, 1>' % (sc, gc), 's126', 65, gen_k=1,
            bounds='GEN(1); composition with c01_prefiltered (filter = rules) is a one-line argument, stated in DESIGN.md C01')

# ---------------------------------------------------------------- C03 / C04 / C05
fam('c03_make_unmake', 'C03', 'c03::make_unmake_exact', 's12', 65, 3600, 12, 'all semilegal (legal or not) and null moves of the group',
    groups=GROUPS + [NULLG], props=['C03', 'C04', 'C05', 'C19'])
fam('c04_nested', 'C04', 'c03::nested_make_unmake', 's12', 65, 7200, 16, 'outer: legal moves of the group; inner: any semilegal or null move',
    quick=set())
fam('c05_hash_delta', 'C05', 'c05::hash_delta', 's12', 65, 3600, 12, 'all semilegal and null moves of the group; arbitrary pre-state hash',
    groups=GROUPS + [NULLG])
reg('c05_hash_features', 'C05', QT, 600, 6, 'all keys of the build under test (position-free)', 'c05::hash_features', unwind=9)
reg('c05_scratch_hash_def', 'C05', QT, 2400, 14, 'every raw board (no validity assumption); real RawBoard::zobrist_hash',
    'c05::scratch_hash_def', unwind=65, props=['C05', 'C19'])

# ---------------------------------------------------------------- C11
fam_side('c11_validate_exact', 'C11', 'c11::validate_exact', 's12', 65, 3600, 12, 'every raw board (13^64 cell assignments, rights, e.p. marks, counters)',
         props=['C11', 'C19', 'C05'])

# ---------------------------------------------------------------- C07
fam_side('c07_outcome_classification', 'C07', 'c07::outcome_classification', 's123', 65, 3000, 10, FULL, props=['C07', 'C14'])
fam_side('c07_castling_never_only_move', 'C07', 'c07::castling_never_only_move', 's12', 65, 2400, 10, FULL + ' x both castlings')

for sk, sc, sd in SIDES:
    reg('c07_has_legal_moves_wiring_%s' % sk, 'C07', T, 10800, 24, FULL + ' + GEN(1); real has_legal_moves with the legality filter abstracted (S6); ' + sd,
        'c07::has_legal_moves_wiring::<_, %s, 1, 1>' % sc, 's126', 65, gen_k=1, bounds='GEN(1)', props=['C07', 'C01'])
    reg('c07_has_legal_moves_wiring_pawns_%s' % sk, 'C07', QT, 3600, 14, FULL + GEN20 + 'real has_legal_moves with the legality filter abstracted (S6); ' + sd,
        'c07::has_legal_moves_wiring::<_, %s, 2, 0>' % sc, 's126', 65, gen_k=2, bounds='GEN(2 pawns, 0 pieces)', props=['C07', 'C01'])

# ---------------------------------------------------------------- C10
fam('c10_uci_struct_roundtrip', 'C10', 'c10::uci_struct_roundtrip', 's12', 65, 2400, 10, 'all semilegal moves of the group', quick='all')
fam_side('c10_uci_accept_exact', 'C10', 'c10::uci_accept_exact', 's12', 65, 3600, 14, FULL + ' x every UCI move value (64 x 64 x 5 + null)')
reg('c10_uci_parse_exact', 'C10', QT, 600, 6, 'every well-formed UTF-8 string of at most 6 bytes', 'c10::uci_parse_exact', unwind=8,
    props=['C10', 'C12'])
reg('c10_uci_text_roundtrip', 'C10', T, 2400, 16, 'every UCI move value, through core::fmt', 'c10::uci_text_roundtrip', unwind=8,
    props=['C10', 'C12'])
fam_side('c10_uci_string_readers', 'C10', 'c10::uci_string_readers', 's12', 65, 3600, 14, FULL + ' x every UTF-8 string of at most 5 bytes',
         tiers=T, props=['C10', 'C02'])

# ---------------------------------------------------------------- C02
fam('c02_make_move_step', 'C02', 'c02::make_move_step', 's12', 65, 3600, 14, 'all well-formed tuples of the group; validity of the result via '
    'C11\'s conditions', groups=GROUPS + [FOREIGN], extra_const=', false')
fam('c02_make_move_step_direct', 'C02', 'c02::make_move_step', 's12', 65, 7200, 16, 'as c02_make_move_step, and the result is re-validated '
    'with the real Board::try_from', groups=[g for g in GROUPS if g[0] in ('ep', 'castling', 'pspecial', 'king')], quick=set(), extra_const=', true')

# ---------------------------------------------------------------- C09 (value level)
SANV = [('uci', 'V_UCI', 16), ('castling', 'V_CASTLING', 16), ('pawnmove', 'V_PAWN_MOVE', 16), ('pawncapture', 'V_PAWN_CAPTURE', 16),
        ('pawnshort', 'V_PAWN_SHORT', 2), ('simple', 'V_SIMPLE', 2)]
for vk, vc, k in SANV:
    for sk, sc, sd in SIDES:
        reg('c09_san_into_move_%s_%s' % (vk, sk), 'C09', T if vk in ('simple', 'pawnshort', 'uci') else QT, 5400, 16,
            FULL + ('' if k == 16 else ' + GEN(%d)' % k) + '; every san::Data value of variant %s; %s' % (vk, sd),
            'c09::san_into_move_sound::<_, %s, {crate::c09::%s}, %d>' % (sc, vc, k), 's12', 65 if k == 16 else 66,
            bounds='' if k == 16 else 'GEN(%d): at most %d own men per kind (candidate loop bound)' % (k, k), props=['C09', 'C02'])
for gk, gc, gd in GROUPS:
    for sk, sc, sd in SIDES:
        piece = gk in ('king', 'knight', 'bishop', 'rook', 'queen')
        k = 2 if piece and gk != 'king' else 16
        reg('c09_san_from_move_%s_%s' % (sk, gk), 'C09', QT if gk in ('ep', 'castling', 'pspecial') else T, 5400, 16,
            FULL + ('' if k == 16 else ' + GEN(2)') + '; legal moves: %s; %s' % (gd, sd),
            'c09::san_from_move::<_, %s, %s, %d>' % (sc, gc, k), 's123', 66,
            bounds='' if k == 16 else 'GEN(2): at most 2 own men per kind, so at most one competing candidate', props=['C09'])

reg('c09_san_simple_pawn_refused', 'C09', QT, 900, 8, 'the initial position x every Data::Simple value naming a pawn', 'c09::san_simple_pawn_refused', 's1', 66,
    props=['C09', 'C02'])

# ---------------------------------------------------------------- C12
reg('c12_coord_parse', 'C12', QT, 300, 4, 'every UTF-8 string of at most 4 bytes', 'c12::coord_parse', unwind=8, props=['C12', 'C20'])
reg('c12_coord_roundtrip', 'C12', QT, 600, 6, 'all 64 squares through core::fmt', 'c12::coord_roundtrip', unwind=8, props=['C12', 'C20'])
reg('c12_color_parse', 'C12', QT, 600, 6, 'every UTF-8 string of at most 3 bytes', 'c12::color_parse', unwind=8, props=['C12', 'C20'])
reg('c12_cell_parse', 'C12', QT, 600, 6, 'every UTF-8 string of at most 3 bytes', 'c12::cell_parse', unwind=14, props=['C12', 'C20'])
reg('c12_castling_parse', 'C12', QT, 600, 6, 'every UTF-8 string of at most 6 bytes', 'c12::castling_parse', unwind=8, props=['C12', 'C20'])
reg('c12_castling_roundtrip', 'C12', QT, 900, 8, 'all 16 right sets through core::fmt', 'c12::castling_roundtrip', unwind=8, props=['C12', 'C20'])
reg('c12_san_parse_total_5', 'C12', QT, 900, 8, 'every UTF-8 string of at most 5 bytes', 'c12::san_parse_total::<_, 5>', 's4', 9, props=['C12', 'C09'])
reg('c12_san_parse_total_7', 'C12', T, 3600, 12, 'every UTF-8 string of at most 7 bytes', 'c12::san_parse_total::<_, 7>', 's4', 9, props=['C12', 'C09'])
reg('c12_fen_board_field_18', 'C12', T, 3600, 12, 'FEN family (a): every space-free UTF-8 string of at most 18 bytes as the whole record',
    'c12::fen_board_field::<_, 18>', unwind=20)
reg('c12_fen_tail_12', 'C12', T, 3600, 12, 'FEN family (b): board field 4k3/8/8/8/8/8/8/4K3 followed by every UTF-8 string of at most 12 bytes',
    'c12::fen_tail::<_, 12>', 's1', 66)

# ---------------------------------------------------------------- C13 / C14 / C17
CHAIN_STATES = [(0, 0), (0, 1), (0, 2), (0, 3), (1, 0), (1, 1), (1, 2), (1, 3), (2, 0), (2, 1), (3, 0), (3, 1), (4, 0), (4, 1), (5, 0), (5, 1), (5, 3), (5, 4)]
QUICK_STATES = {(0, 0), (1, 1), (3, 0), (5, 4)}
for st, pre in CHAIN_STATES:
    for ok, oc in [('move', 'OP_PUSH_MOVE'), ('uci', 'OP_PUSH_UCI'), ('other', 'OP_OTHER')]:
        q = (st, pre) in QUICK_STATES and ok != 'uci'
        reg('c13_chain_step_s%d_p%d_%s' % (st, pre, ok), 'C13', QT if q else T, 3600, 14,
            'chain state = stated start position %d after stated concrete prefix %d; one symbolic operation (%s), optionally followed by a pop' % (st, pre, ok),
            'c13::chain_step::<_, %d, %d, {crate::c13::%s}>' % (st, pre, oc), 's13', 66,
            bounds='pre-states from the stated finite sets START x PREFIX; BaseMoveChain<ArrRepeat>; two or more symbolic pushes are outside',
            props=['C13', 'C14', 'C02', 'C04'])
for st in range(6):
    reg('c13_chain_eq_s%d' % st, 'C13', QT if st == 0 else T, 3600, 14, 'two chains from stated starts, one symbolic push and outcome each',
        'c13::chain_eq::<_, %d>' % st, 's13', 66)
for st, pre in [(0, 1), (1, 3), (5, 3), (2, 0)]:
    reg('c17_walker_s%d_p%d' % (st, pre), 'C17', QT if (st, pre) in ((1, 3), (5, 3)) else T, 3600, 14,
        'stated chain (start %d, prefix %d) extended by one symbolic accepted move; 6 symbolic walker operations' % (st, pre),
        'c13::walker_steps::<_, %d, %d, 6>' % (st, pre), 's13', 66, bounds='chains of at most 9 moves; at most 6 walker operations')
reg('c14_outcome_filter_table', 'C14', QT, 300, 4, 'all outcomes x 3 filters (exhaustive)', 'c14::outcome_filter_table')
reg('c14_chain_outcome_precedence', 'C14', QT, 900, 8, 'all board outcomes x every usize count x 3 filters', 'c14::chain_outcome_precedence', 's5', 66)

# ---------------------------------------------------------------- C18
for hk, hc in [('v', 'MV'), ('h', 'MH')]:
    for gk, gc, gd in GROUPS + [FOREIGN]:
        for sk, sc, sd in SIDES:
            reg('c18_mirror_move_%s_%s_%s' % (hk, sk, gk), 'C18', QT if (gk in ('ep', 'castling') and hk == 'v') or (gk == 'pspecial' and hk == 'h') else T, 7200, 16,
                FULL + '; %s; moves: %s; mirror: %s' % (sd, gd, 'top-bottom + colours' if hk == 'v' else 'left-right (no castling rights)'),
                'c18::mirror_move::<_, %s, %s, {crate::c18::%s}>' % (sc, gc, hc), 's12', 65)
    for sk, sc, sd in SIDES:
        reg('c18_mirror_outcome_%s_%s' % (hk, sk), 'C18', QT, 5400, 14, FULL + '; ' + sd, 'c18::mirror_outcome_eq::<_, %s, {crate::c18::%s}>' % (sc, hc), 's123', 65)
        reg('c18_mirror_gen_%s_%s' % (hk, sk), 'C18', T, 10800, 24, FULL + ' + GEN(1); ' + sd, 'c18::mirror_gen::<_, %s, {crate::c18::%s}, 1, 1>' % (sc, hc), 's12', 65, gen_k=1,
            bounds='GEN(1)')

PROPS = ['C%02d' % i for i in range(1, 21)]


def harnesses_for(prop, tier):
    return [n for n, h in HARNESSES.items() if prop in h['props'] and tier in h['tiers']]


# properties that also run engine B (MIR -> SMT-LIB)
ENGINE_B = {'C15'}

# prose: what lies outside the bounds of each property's check
OUTSIDE = {}
# per-property method assumptions (besides stubs)
ASSUME = {}
