"""Engine B glue: MIR -> SMT-LIB per-square queries for attack::rook / attack::bishop (C15)."""
import hashlib, json, os, subprocess, sys

VERIF = os.path.dirname(os.path.dirname(os.path.abspath(__file__)))
sys.path.insert(0, os.path.join(VERIF, 'mirsmt'))


def run(prop, tier, seed, log, bins):
    import encode
    out_dir = os.path.join(VERIF, '.build', 'mir')
    extra = {'evaluations': 0, 'distinct_nontrivial': 0, 'samples': [], 'queries': 0, 'solver_s': 0.0, 'violations': [], 'inconclusive': None, 'detail': {}}

    def native_eval(items):
        p = os.path.join(VERIF, '.build', 'tmp', 'attack-%d.txt' % os.getpid())
        os.makedirs(os.path.dirname(p), exist_ok=True)
        open(p, 'w').write(''.join('%s %d %d\n' % it for it in items))
        r = subprocess.run([bins['release'], '--attack', p], capture_output=True, text=True, timeout=300)
        os.unlink(p)
        return [int(x) for x in r.stdout.split()]

    try:
        mir = encode.dump_mir(os.path.join(out_dir, 'target'))
        runs = {}
        solvers = ['z3', 'z3-new'] if tier == 'quick' else ['z3', 'z3-new']
        for sv in solvers:
            runs[sv] = encode.run(out_dir, tier, seed, sv, native_eval=native_eval if sv == 'z3' else None, log=log, mir=mir)
        if tier == 'thorough':
            # cvc5 re-decides a seeded sample of squares (37 s per rook square measured: all 128 would take over an hour)
            import random
            rnd = random.Random(seed)
            sample = sorted(rnd.sample(range(64), 6))
            runs['cvc5'] = encode.run(out_dir, tier, seed, 'cvc5', pieces=('rook', 'bishop'), log=log, mir=mir, per_query_timeout=1500, squares=sample, jobs=6)
    except encode.Inconclusive as e:
        extra['inconclusive'] = 'engine B: ' + str(e)
        return extra
    except Exception as e:  # noqa
        extra['inconclusive'] = 'engine B crashed: %r' % (e,)
        return extra
    main = runs['z3']
    extra['queries'] = sum(r['queries'] for r in runs.values())
    extra['evaluations'] = extra['queries'] + main['validated_pairs']
    extra['solver_s'] = round(sum(r['solver_s'] for r in runs.values()), 1)
    extra['distinct_nontrivial'] = main['unsat']
    extra['samples'] = [dict(engine='B', **s) for s in main['samples']]
    extra['detail'] = {sv: {k: r[k] for k in ('queries', 'unsat', 'sat', 'unknown', 'solver_s', 'obligations_failed', 'functions',
                                               'mir_dump_s', 'validated_pairs', 'validation_mismatch', 'wall_s')} for sv, r in runs.items()}
    extra['detail']['encoding'] = ('per concrete square: (occ & mask) * magic >> shift (64-bit wrapping bit-vector arithmetic), table slice as an if-then-else '
                                   'tree over the index bits, & post_mask; negated equality with the ray-walk definition unrolled per direction; '
                                   'obligation: every reachable index lies inside the table emitted by build.rs')
    # verdict vectors of the solvers must agree
    for sv, r in runs.items():
        if r['unknown']:
            extra['inconclusive'] = 'engine B: %s answered unknown/timeout on %d queries' % (sv, len(r['unknown']))
    v0 = sorted((x['piece'], x['square']) for x in main['sat'])
    for sv, r in runs.items():
        if sv in ('z3-new',) and sorted((x['piece'], x['square']) for x in r['sat']) != v0:
            extra['inconclusive'] = 'engine B: z3 and %s disagree' % sv
    if main['validation_mismatch']:
        extra['inconclusive'] = 'engine B: translator validation failed (encoding != native function): %s' % json.dumps(main['validation_mismatch'][:2])
    # counterexamples and failed obligations -> native replay
    from_sat = [(x['piece'], x['square'], x['occ'], 'look-up differs from the ray walk') for x in main['sat'] if x['occ'] is not None]
    for o in main['obligations_failed']:
        extra['inconclusive'] = extra['inconclusive'] or ('engine B obligation failed: %s' % json.dumps(o))
    for piece, sq, occ, what in from_sat[:6]:
        vals = [[sq], list(occ.to_bytes(8, 'little'))]
        name = 'c15_%s_exact' % piece
        p = os.path.join(VERIF, '.build', 'tmp', 'eb-%d.json' % os.getpid())
        json.dump(vals, open(p, 'w'))
        rep = {}
        for prof, b in bins.items():
            r = subprocess.run([b, name, p], capture_output=True, text=True, timeout=60)
            line = r.stdout.strip().split('\n')[-1] if r.stdout.strip() else '{}'
            rep[prof] = json.loads(line) if line.startswith('{') else {'outcome': 'crash'}
        os.unlink(p)
        if any(v.get('outcome') in ('fail', 'panic', 'crash') for v in rep.values()):
            os.makedirs(os.path.join(VERIF, 'replays', prop), exist_ok=True)
            rp = os.path.join(VERIF, 'replays', prop, '%s-%s.json' % (name, hashlib.sha1(json.dumps(vals).encode()).hexdigest()[:10]))
            json.dump({'property': prop, 'harness': name, 'check': what, 'vals': vals, 'square': sq, 'occupancy': '%#018x' % occ, 'native': rep, 'found_by': 'engine B (z3 model)'}, open(rp, 'w'), indent=1)
            extra['violations'].append({'replay': rp, 'what': 'attack::%s(square %d, occupancy %#018x) differs from the ray-walk definition (z3 model, reproduced natively)' % (piece, sq, occ)})
        else:
            extra['inconclusive'] = 'engine B: z3 model for %s square %d did not reproduce natively (encoder to be fixed)' % (piece, sq)
    return extra
