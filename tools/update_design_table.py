#!/usr/bin/env python3
"""Re-generate the seeded-change table (tools/seeded_table.py) and splice it into DESIGN.md between the markers."""
import os, subprocess, sys
ROOT = os.path.dirname(os.path.dirname(os.path.abspath(__file__)))
tbl = subprocess.run([sys.executable, os.path.join(ROOT, 'tools', 'seeded_table.py')], capture_output=True, text=True).stdout
p = os.path.join(ROOT, 'DESIGN.md')
s = open(p).read()
a = s.index('<!-- SEEDED_TABLE_BEGIN -->') + len('<!-- SEEDED_TABLE_BEGIN -->')
b = s.index('<!-- SEEDED_TABLE_END -->')
open(p, 'w').write(s[:a] + '\n' + tbl + s[b:])
n = tbl.count('| caught |')
print('%d caught of %d' % (n, tbl.count('\n') - 2))
