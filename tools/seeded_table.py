#!/usr/bin/env python3
"""Fold the isolated mutation-run results (.build/mutest/*.json) into seeded/<id>/meta.json and print a markdown table."""
import glob, json, os, re, sys
ROOT = os.path.dirname(os.path.dirname(os.path.abspath(__file__)))
sys.path.insert(0, ROOT)
from vlib import registry
NEEDS = {}
runs = {}
for f in sorted(glob.glob(os.path.join(ROOT, '.build', 'mutest', '*.json')), key=os.path.getmtime):
    r = json.load(open(f))
    log = f[:-5] + '.log'
    viol = []
    if os.path.exists(log):
        for l in open(log, errors='replace'):
            m = re.match(r'\s+harness=(\S+) check="(.*)" ', l)
            if m:
                viol.append('%s: %s' % (m.group(1), m.group(2)))
            m = re.match(r'  (attack::.*differs.*)', l)
            if m:
                viol.append('engine B: ' + m.group(1)[:90])
    r['violations'] = sorted(set(viol))[:4]
    runs.setdefault(r['seeded'], []).append(r)
rows = []
for d in sorted(glob.glob(os.path.join(ROOT, 'seeded', '*'))):
    sid = os.path.basename(d)
    mp = os.path.join(d, 'meta.json')
    meta = json.load(open(mp))
    rr = runs.get(sid, [])
    # keep the latest run per (property, tier, args)
    latest = {}
    for r in rr:
        latest[(r['property'], r['tier'], r['args'])] = r
    meta['check_runs'] = [{'cmd': './check %s --tier %s %s' % (r['property'], r['tier'], r['args']), 'exit': r['exit'], 'wall_s': r['wall_s'],
                           'reported': r['violations']} for r in latest.values()]
    meta['detected'] = any(r['exit'] == 1 for r in latest.values())
    notes = os.path.join(d, 'notes.md')
    if 'needs' not in meta and os.path.exists(notes):
        txt = open(notes).read()
        meta['needs'] = ' '.join(txt.split())[:400]
    json.dump(meta, open(mp, 'w'), indent=1)
    best = [r for r in latest.values() if r['exit'] == 1]
    hs = sorted(set(v.split(':')[0] for r in best for v in r['violations']))
    prop = meta['property']
    def tiers(h):
        if h.startswith('engine B'):
            return 'quick+thorough'
        q = h in registry.harnesses_for(prop, 'quick') if prop in registry.PROPS else False
        t = h in registry.harnesses_for(prop, 'thorough') if prop in registry.PROPS else False
        return 'quick+thorough' if q else ('thorough' if t else 'not in a tier of ' + prop)
    others = sorted(set(p for h in hs for p in registry.PROPS if h in registry.harnesses_for(p, 'quick')))
    meta['reported_by'] = hs
    # keep one replayed counterexample next to the seeded change (what the check actually found)
    import shutil
    for r in best:
        tag = '%s-%s-%s%s' % (sid, r['property'], r['tier'], re.sub(r'[^A-Za-z0-9\n]', '_', r['args']))
        cand = sorted(glob.glob(os.path.join(ROOT, '.build', 'mutest', tag + '.replays', '*', '*.json')))
        if cand:
            shutil.copy(cand[0], os.path.join(d, 'counterexample.json'))
            break
    meta['tier_of_own_property'] = sorted(set(tiers(h) for h in hs))
    meta['quick_checks_that_contain_a_reporting_harness'] = others
    json.dump(meta, open(mp, 'w'), indent=1)
    status = 'caught' if best else ('not caught' if latest else 'not run')
    rows.append('| %s | %s | %s | %s | %s | %s |' % (sid, prop, status, '; '.join(hs)[:110] or ', '.join('%s exit %d' % (r['args'].replace('--only ', '') or r['tier'], r['exit']) for r in latest.values())[:110],
                                                  ', '.join(meta['tier_of_own_property']) if best else '', ' '.join(others) if best else ''))
print('| seeded change | property | result | reporting harness(es) | tier of its own property | quick checks containing such a harness |\n|---|---|---|---|---|---|')
print('\n'.join(rows))
