#!/bin/bash
# usage: mutest.sh <seeded-id> <property> <tier> [extra ./check args...]
# Runs a check against a seeded change in an ISOLATED copy (/tmp/mt/<id>/{repo,verif}); /repo itself is not touched.
ID=$1; PROP=$2; TIER=$3; shift 3
TAG=$ID-$PROP-$TIER$(echo "$*" | tr -c 'A-Za-z0-9\n' '_')
D=/tmp/mt/$TAG
rm -rf $D; mkdir -p $D /verif/.build/mutest
git -C /repo worktree prune
git -C /repo worktree add -q --detach $D/repo HEAD || exit 3
git -C $D/repo apply /verif/seeded/$ID/patch.diff || { echo "patch does not apply"; exit 3; }
rsync -a --exclude .build --exclude harness/target --exclude .git --exclude evidence --exclude replays /verif/ $D/verif/
cd $D/verif
T0=$(date +%s)
./check $PROP --tier $TIER "$@" > $D/out.log 2>&1
RC=$?
T1=$(date +%s)
VIOL=$(grep -c "^VIOLATION" $D/out.log)
cp $D/out.log /verif/.build/mutest/$TAG.log
[ -d $D/verif/replays ] && mkdir -p /verif/.build/mutest/$TAG.replays && cp -r $D/verif/replays/. /verif/.build/mutest/$TAG.replays/
echo "{\"seeded\": \"$ID\", \"property\": \"$PROP\", \"tier\": \"$TIER\", \"args\": \"$*\", \"exit\": $RC, \"violation_lines\": $VIOL, \"wall_s\": $((T1-T0))}" > /verif/.build/mutest/$TAG.json
cat /verif/.build/mutest/$TAG.json
grep -E "^VIOLATION|INCONCLUSIVE|^  harness=|native\[" $D/out.log | head -8
cd /; git -C /repo worktree remove --force $D/repo; rm -rf $D
