#!/bin/bash
# usage: confirm_mutant.sh <src dir with patch.diff demo.rs notes.md> <seeded id> <property>
# Confirms in a scratch worktree: patch applies, existing tests pass with it, demo fails with it and passes without.
set -u
SRC=$1; ID=$2; PROP=$3
WT=/tmp/confirm_$ID
rm -rf $WT; git -C /repo worktree prune; git -C /repo worktree add -q --detach $WT HEAD || exit 2
export CARGO_TARGET_DIR=$WT/target
cd $WT
mkdir -p chess/tests; DEMO=chess/tests/demo_${ID//-/_}.rs
cp $SRC/demo.rs $DEMO
# 1. demo passes on the clean tree
cargo test --offline -p owlchess --test demo_${ID//-/_} > $WT/clean_demo.log 2>&1; CLEAN=$?
# 2. apply
git apply $SRC/patch.diff || { echo "PATCH DOES NOT APPLY"; cd /; git -C /repo worktree remove --force $WT; exit 2; }
cargo test --workspace --offline --no-fail-fast > $WT/mut_all.log 2>&1
SUITE_FAIL=$(awk '/Running |Doc-tests /{cur=$0} /^test .* FAILED/{ if (cur !~ /demo_/) n++ } END{print n+0}' $WT/mut_all.log)
SUITE_PASS=$(awk '/Running |Doc-tests /{cur=$0} /^test .* ok$/{ if (cur !~ /demo_/) n++ } END{print n+0}' $WT/mut_all.log)
grep -E "^test result|Running|FAILED" $WT/mut_all.log | grep -B1 -E "FAILED|failed" | head -20 > $WT/summary.txt
cargo test --offline -p owlchess --test demo_${ID//-/_} > $WT/mut_demo.log 2>&1; MUT=$?
# pre-existing tests: lib unit tests + doc tests must all pass
UNIT_OK=$(grep -E "^test result: ok" $WT/mut_all.log | wc -l)
echo "id=$ID clean_demo_rc=$CLEAN mutant_demo_rc=$MUT preexisting_failed=$SUITE_FAIL preexisting_passed=$SUITE_PASS"
mkdir -p /verif/seeded/$ID
cp $SRC/patch.diff /verif/seeded/$ID/patch.diff
cp $SRC/demo.rs /verif/seeded/$ID/demo.rs
[ -f $SRC/notes.md ] && cp $SRC/notes.md /verif/seeded/$ID/notes.md
OK=false; [ $CLEAN -eq 0 ] && [ $MUT -ne 0 ] && [ $SUITE_FAIL -eq 0 ] && OK=true
cat > /verif/seeded/$ID/meta.json <<EOM
{"id": "$ID", "property": "$PROP", "confirmed": $OK,
 "confirmation": {"demo_on_clean_tree_rc": $CLEAN, "demo_with_patch_rc": $MUT, "preexisting_tests_failed_with_patch": $SUITE_FAIL, "preexisting_tests_passed_with_patch": $SUITE_PASS,
  "commands": ["git -C /repo worktree add --detach $WT HEAD", "cargo test --offline -p owlchess --test demo (clean)", "git apply patch.diff", "cargo test --workspace --offline --no-fail-fast", "cargo test --offline -p owlchess --test demo (patched)"]},
 "base_commit": "$(git -C /repo rev-parse --short HEAD)"}
EOM
cd /; git -C /repo worktree remove --force $WT
