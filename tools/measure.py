#!/usr/bin/env python3
"""Ad-hoc measurement: run the named harnesses (substring match) and print a table. Not a check."""
import importlib.machinery, importlib.util, json, os, sys, time
ROOT = os.path.dirname(os.path.dirname(os.path.abspath(__file__)))
sys.path.insert(0, ROOT)
loader = importlib.machinery.SourceFileLoader('checkmod', os.path.join(ROOT, 'check'))
spec = importlib.util.spec_from_loader('checkmod', loader)
chk = importlib.util.module_from_spec(spec)
loader.exec_module(chk)
from vlib import registry
pats = [a for a in sys.argv[1:] if not a.startswith('--')]
jobs = 12
cap = None
for a in sys.argv[1:]:
    if a.startswith('--jobs='):
        jobs = int(a[7:])
    if a.startswith('--cap='):
        cap = int(a[6:])
names = [n for n in registry.HARNESSES if any(p in n for p in pats)]
if cap:
    for n in names:
        registry.HARNESSES[n]['cap_s'] = cap
bins = chk.build_replay()
t0 = time.time()
res = chk.run_harnesses(names, bins, 'X', jobs)
tag = time.strftime('%H%M%S')
json.dump(res, open(os.path.join(ROOT, '.build', 'measure-%s.json' % tag), 'w'), indent=1, default=str)
print('%-46s %-12s %7s %9s %6s %5s  %s' % ('harness', 'status', 'wall', 'clauses', 'sat', 'rssGB', 'why'))
for v in sorted(res, key=lambda v: v['harness']):
    print('%-46s %-12s %6.0fs %9s %6s %5.1f  %s' % (v['harness'], v['status'], v['wall_s'], (v.get('stats') or {}).get('clauses', ''), v.get('sat_calls', ''), v.get('peak_rss_gb', 0), v['why'][:100]))
    for x in v.get('violations', []):
        print('     VIOL', x['check'], x.get('reproduces'), json.dumps(x.get('native'))[:600])
print('total %.0fs' % (time.time() - t0))
