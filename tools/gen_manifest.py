#!/usr/bin/env python3
"""Write MANIFEST.json from vlib/claims.py."""
import json, os, sys
ROOT = os.path.dirname(os.path.dirname(os.path.abspath(__file__)))
sys.path.insert(0, ROOT)
from vlib import claims, registry

checks = []
for pid in registry.PROPS:
    c = claims.CLAIMS.get(pid)
    if not c:
        continue
    e = {
        'property_id': pid,
        'quick_cmd': './check %s --tier quick' % pid,
        'thorough_cmd': './check %s --tier thorough' % pid,
        'evidence_file': 'evidence/%s.json' % pid,
        'replay_cmd_template': './check %s --replay {path}' % pid,
        'engine': 'kani-cbmc' + ('+mir-smt' if pid in registry.ENGINE_B else ''),
        'level_claimed': {'category': 'model_checking', 'text': c['text'], 'design_ref': c['design_ref']},
        'level_note': c['note'],
        'technique': c.get('technique', 'bounded model checking of the compiled Rust code (Kani 0.68 -> CBMC 6.11 -> CaDiCaL) over symbolic '
                           'inputs, unwinding assertions on; counterexamples replayed natively'),
    }
    checks.append(e)
m = {
    'version': 1,
    'setup_cmd': './setup.sh',
    'hooks': {
        'guard': 'cfg(owlchess_verif)',
        'enable': 'RUSTFLAGS="--cfg owlchess_verif" (set by ./check for cargo kani and for the native replay build)',
        'baseline_off_cmd': 'cd /repo && cargo nextest run --workspace --no-fail-fast --offline || (cd /repo && cargo test --workspace --no-fail-fast --offline)',
        'source_commits': claims.HOOK_COMMITS,
        'add_only': True,
    },
    'engines': [
        {'name': 'kani-cbmc', 'path': 'harness/', 'serves_properties': [c['property_id'] for c in checks],
         'kind_free_text': 'Kani proof harnesses (harness/src/cNN.rs) over kani::any() inputs, decided by CBMC+CaDiCaL; registry in vlib/registry.py; runner ./check'},
        {'name': 'mir-smt', 'path': 'mirsmt/', 'serves_properties': sorted(registry.ENGINE_B),
         'kind_free_text': 'MIR -> SMT-LIB2 encoder for attack::rook / attack::bishop with the statics of the build under test; z3 (cvc5 cross-check in thorough)'},
    ],
    'checks': checks,
    'notes': claims.NOTES,
    'not_applicable': [{'property_id': k, 'reason': v} for k, v in claims.NOT_APPLICABLE.items()],
}
json.dump(m, open(os.path.join(ROOT, 'MANIFEST.json'), 'w'), indent=1)
print('%d checks, %d not applicable' % (len(checks), len(m['not_applicable'])))
