#!/usr/bin/env python3
"""Run a list of isolated mutation tests, N at a time. usage: mutest_batch.py <jobs.txt> [N]
jobs.txt lines: <seeded-id> <property> <tier> [--only pattern ...]"""
import os, subprocess, sys, time, json
jobs = [l.split() for l in open(sys.argv[1]) if l.strip() and not l.startswith('#')]
N = int(sys.argv[2]) if len(sys.argv) > 2 else 4
mem = os.environ.get('MT_MEM_GB', '14')
running = []
out = open('/verif/.build/mutest/batch-%s.log' % time.strftime('%H%M%S'), 'w')
os.makedirs('/verif/.build/mutest', exist_ok=True)
while jobs or running:
    while jobs and len(running) < N:
        j = jobs.pop(0)
        env = dict(os.environ, VERIF_MEM_GB=mem, VERIF_JOBS=os.environ.get('MT_JOBS', '14'))
        p = subprocess.Popen(['/verif/tools/mutest.sh'] + j, stdout=subprocess.PIPE, stderr=subprocess.STDOUT, text=True, env=env)
        running.append((j, p, time.time()))
    time.sleep(2)
    for r in list(running):
        j, p, t0 = r
        if p.poll() is not None:
            txt = p.stdout.read()
            line = ' '.join(j) + ' :: ' + (txt.strip().split('\n')[0] if txt.strip() else '?')
            print(line, flush=True)
            out.write(line + '\n' + txt + '\n'); out.flush()
            running.remove(r)
