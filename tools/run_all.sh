#!/bin/bash
# usage: run_all.sh quick|thorough [ids...]  -- runs the registered checks one after the other, logs wall time and exit code
TIER=$1; shift
IDS=${@:-C01 C02 C03 C04 C05 C06 C07 C09 C10 C11 C12 C13 C14 C15 C16 C17 C18 C19 C20}
mkdir -p /verif/.build/runall
for id in $IDS; do
  T0=$(date +%s)
  ${RUNALL_TIMEOUT:+timeout $RUNALL_TIMEOUT} /verif/check $id --tier $TIER > /verif/.build/runall/$id-$TIER.log 2>&1
  RC=$?
  T1=$(date +%s)
  echo "$id $TIER exit=$RC wall=$((T1-T0))s $(grep -c '^VIOLATION' /verif/.build/runall/$id-$TIER.log) violations; $(grep -c 'INCONCLUSIVE' /verif/.build/runall/$id-$TIER.log) inconclusive" | tee -a /verif/.build/runall/summary-$TIER.txt
done
